#!/venv/bin/python
"""Regenerates /verif/MANIFEST.json from the property modules that exist.

A property is claimed when vmon/props/cNN.py exists and defines LEVEL_TEXT;
every other property of properties.jsonl is listed under not_applicable with
the module's NOT_APPLICABLE reason (or 'check not built yet')."""
import importlib
import json
import os
import sys

ROOT = os.path.dirname(os.path.dirname(os.path.abspath(__file__)))
sys.path.insert(0, ROOT)
sys.path.append(os.path.join(ROOT, '.deps'))
from vmon.run import technique_of  # noqa: E402

HOOK_COMMITS_FILE = os.path.join(ROOT, 'tools', 'hook_commits.txt')


def main():
    props = [json.loads(l) for l in open(os.path.join(ROOT,
                                                      'properties.jsonl'))]
    checks, na = [], []
    for p in props:
        pid = p['id']
        path = os.path.join(ROOT, 'vmon', 'props', pid.lower() + '.py')
        mod = None
        if os.path.exists(path):
            mod = importlib.import_module('vmon.props.' + pid.lower())
        if mod is not None and getattr(mod, 'LEVEL_TEXT', None):
            checks.append({
                'property_id': pid,
                'quick_cmd': './check %s --tier quick' % pid,
                'thorough_cmd': './check %s --tier thorough' % pid,
                'evidence_file': '/verif/evidence/%s.json' % pid,
                'replay_cmd_template': './check %s --replay {path}' % pid,
                'engine': 'vmon',
                'level_claimed': {
                    'category': 'exploration',
                    'text': mod.LEVEL_TEXT,
                    'design_ref': 'DESIGN.md section 2, %s' % pid,
                },
                'level_note': '; '.join(getattr(mod, 'ASSUMPTIONS', [])) or
                'trusted: CPython, RDKit, numpy/scipy, PyYAML, pmutt',
                'technique': technique_of(mod),
            })
        else:
            na.append({'property_id': pid,
                       'reason': getattr(mod, 'NOT_APPLICABLE',
                                         'check not built yet in this '
                                         'session (runtime monitoring '
                                         'applies; see DESIGN.md)')})
    hooks = []
    if os.path.exists(HOOK_COMMITS_FILE):
        hooks = [l.split()[0] for l in open(HOOK_COMMITS_FILE) if l.strip()]
    man = {
        'version': 1,
        'setup_cmd': './setup.sh',
        'hooks': {
            'guard': 'PGRADD_VERIF',
            'enable': 'environment variable PGRADD_VERIF=1 (set by ./check); '
                      'pgradd is an editable install, so every check imports '
                      "/repo's current working tree; nothing is built",
            'baseline_off_cmd': 'cd /repo && env -u PGRADD_VERIF '
                                '/venv/bin/python -m pytest -ra -q -p '
                                'no:cacheprovider --timeout=900 '
                                '--continue-on-collection-errors',
            'source_commits': hooks,
            'add_only': True,
        },
        'engines': [{
            'name': 'vmon', 'path': '/verif/vmon',
            'serves_properties': [c['property_id'] for c in checks],
            'kind_free_text': 'runtime monitoring: sharded workloads '
            '(subprocess per shard, faulthandler), reference-model / '
            'relational / contract monitors, sys.monitoring anchor-reach and '
            'step-budget monitors, offline merge + known-findings classifier',
        }],
        'checks': checks,
        'not_applicable': na,
        'notes': 'All checks: ./check <ID> [--tier quick|thorough]; '
                 'VERIF_SEED selects the random part of each workload. Exit 0 '
                 'held / 1 VIOLATION / 2 INCONCLUSIVE. See DESIGN.md.',
    }
    with open(os.path.join(ROOT, 'MANIFEST.json'), 'w') as f:
        json.dump(man, f, indent=1)
    print('claimed:', [c['property_id'] for c in checks])
    print('not claimed:', [n['property_id'] for n in na])


if __name__ == '__main__':
    main()
