#!/venv/bin/python
"""Renders known_findings.json and the seeded/ + self-test results as markdown
(appendices F and B of DESIGN.md)."""
import glob
import json
import os
ROOT = os.path.dirname(os.path.dirname(os.path.abspath(__file__)))
d = json.load(open(os.path.join(ROOT, 'known_findings.json')))
print('| property | key (mechanism) | status | commit | what / witness |')
print('|---|---|---|---|---|')
for f in sorted(d['findings'], key=lambda f: (f['property'], f['key'])):
    what = f['what'].split(' ', 3)[-1] if f['status'] == 'fixed' else f['what']
    print('| %s | `%s` | %s | %s | %s — *witness:* `%s` |' % (
        f['property'], f['key'], f['status'], f.get('commit', '—'),
        what.replace('|', '/'), f['witness'].replace('|', '/')[:160]))
print()
print('| seeded change (sub-agent) | breaks | confirmed | caught by |')
print('|---|---|---|---|')
for p in sorted(glob.glob(os.path.join(ROOT, 'seeded', '*', 'meta.json'))):
    m = json.load(open(p))
    caught = ', '.join('%s: %s' % (k, 'VIOLATION' if v['caught'] else 'missed')
                       for k, v in (m.get('checks') or {}).items())
    if m.get('out_of_scope'):
        caught += ' — not a break of the statement as read here (B.20)'
    if m.get('superseded_by_repository_fix'):
        sup = m['superseded_by_repository_fix']
        caught += ' — superseded by repository fix %s (evaluated on its ' \
            'parent)' % (sup.get('commit', '') if isinstance(sup, dict)
                         else '')
    print('| `%s` | %s | %s | %s |' % (m['id'], m['breaks_property'],
                                       m.get('confirmed'), caught))
res = os.path.join(ROOT, 'seeded', 'selftest_results.json')
if os.path.exists(res):
    print()
    print('| own mutation | property | repo tests | check |')
    print('|---|---|---|---|')
    for r in json.load(open(res)):
        print('| %s | %s | %s | %s |' % (
            r['name'], r['prop'], r.get('tests', '-'),
            'CAUGHT' if r.get('caught') else (r.get('status') or 'missed')))
