#!/venv/bin/python
"""tools/add_finding.py PROP KEY STATUS COMMIT WHAT WITNESS  (maintenance helper, never used by checks)"""
import json, sys
p = '/verif/known_findings.json'
d = json.load(open(p))
prop, key, status, commit, what, witness = sys.argv[1:7]
e = {'property': prop, 'key': key, 'status': status, 'what': what, 'witness': witness}
if commit != '-':
    e['commit'] = commit
    e['what'] = 'fixed: property=%s %s %s' % (prop, commit, what)
d['findings'] = [f for f in d['findings'] if not (f['property'] == prop and f['key'] == key)] + [e]
json.dump(d, open(p, 'w'), indent=1)
