#!/venv/bin/python
"""tools/linecov_report.py DIR [--by-prop]

Merges the line-reach records written by shards run with VERIF_LINECOV=DIR and
lists, per pgradd source file, the executable lines inside function bodies
that no check executed.  Maintenance aid (finds behaviour the workloads never
drive); decides nothing.
"""
import glob
import json
import os
import sys

REPO = os.environ.get('VERIF_REPO', '/repo')
PKG = os.path.join(REPO, 'pgradd')


def body_lines(path):
    """Executable lines of all function bodies (not module/class level)."""
    src = open(path).read()
    top = compile(src, path, 'exec')
    out = set()

    def walk(code, infunc):
        for c in code.co_consts:
            if hasattr(c, 'co_code'):
                isfn = c.co_name not in ('<module>',) and not (
                    c.co_flags & 0 or False)
                # class bodies have no CO_OPTIMIZED flag (0x1)
                fn = bool(c.co_flags & 0x1)
                if fn:
                    for _, _, ln in c.co_lines():
                        if ln is not None and ln != c.co_firstlineno:
                            out.add(ln)
                walk(c, fn)
    walk(top, False)
    return out


def main():
    d = sys.argv[1]
    seen = {}
    byprop = {}
    for f in glob.glob(os.path.join(d, '*.json')):
        prop = os.path.basename(f).split('_')[0]
        for fn, ln in json.load(open(f)):
            seen.setdefault(fn, set()).add(ln)
            byprop.setdefault(fn, {}).setdefault(ln, set()).add(prop)
    tot = hit = 0
    for dirpath, _, files in sorted(os.walk(PKG)):
        if 'tests' in dirpath or 'test' in os.path.basename(dirpath):
            continue
        for fn in sorted(files):
            if not fn.endswith('.py') or fn.startswith('test'):
                continue
            p = os.path.join(dirpath, fn)
            rel = os.path.relpath(p, PKG)
            want = body_lines(p)
            got = seen.get(rel, set())
            miss = sorted(want - got)
            tot += len(want)
            hit += len(want & got)
            if not want:
                continue
            print('%-40s %4d/%4d  missed: %s' % (
                rel, len(want & got), len(want), compress(miss)))
    print('TOTAL %d/%d function-body lines reached (%.1f%%)' % (
        hit, tot, 100.0 * hit / max(tot, 1)))


def compress(xs):
    out = []
    i = 0
    while i < len(xs):
        j = i
        while j + 1 < len(xs) and xs[j + 1] == xs[j] + 1:
            j += 1
        out.append(str(xs[i]) if i == j else '%d-%d' % (xs[i], xs[j]))
        i = j + 1
    return ' '.join(out)


if __name__ == '__main__':
    main()
