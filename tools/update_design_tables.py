#!/venv/bin/python
"""Regenerates everything below the GENERATED marker of DESIGN.md from
seeded/*/meta.json, .work/selftest_results.json (kept as
seeded/selftest_results.json) and known_findings.json."""
import os, shutil, subprocess
ROOT = os.path.dirname(os.path.dirname(os.path.abspath(__file__)))
src = os.path.join(ROOT, '.work', 'selftest_results.json')
if os.path.exists(src):
    shutil.copy(src, os.path.join(ROOT, 'seeded', 'selftest_results.json'))
p = os.path.join(ROOT, 'DESIGN.md')
s = open(p).read()
mark = '<!-- GENERATED BELOW -->'
s = s[:s.index(mark) + len(mark)] + '\n\n'
out = subprocess.run([os.path.join(ROOT, 'tools', 'render_findings.py')],
                     capture_output=True, text=True).stdout
parts = out.split('\n\n')
findings, seeds = parts[0], parts[1]
own = parts[2] if len(parts) > 2 else ''
s += '### Sub-agent seeds (`/verif/seeded/<id>/meta.json`)\n\n' + seeds + '\n\n'
s += '### Own one-line mutations (`tools/selftest_mutations.py`)\n\n' + own + '\n\n'
s += ('## Appendix F — findings (generated from known_findings.json)\n\n'
      'Section 3 lists what was witnessed while reading; this is what the checks re-found, with\n'
      'the commit that repairs it. Open findings are recorded, not repaired.\n\n' + findings + '\n')
open(p, 'w').write(s)
