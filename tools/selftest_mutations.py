#!/venv/bin/python
"""Self-test of the monitors: applies one-line mutations of the anchored
mechanisms (the 'seeded breaks' of DESIGN.md section 2) to a scratch worktree
of /repo (outside /repo and /verif), runs the repository's own tests and the
property's quick check against the scratch copy, and records whether the check
reported a violation.  Maintenance tool; never used by registered commands.

    tools/selftest_mutations.py [PROP ...]   -> .work/selftest_results.json
"""
import json
import os
import subprocess
import sys
import tempfile
import time

ROOT = os.path.dirname(os.path.dirname(os.path.abspath(__file__)))
G = 'pgradd/GroupAdd/'
T = 'pgradd/ThermoChem/'
U = 'pgradd/Units/'
RP = 'pgradd/RINGParser/'
RW = 'pgradd/RDkitWrapper/'

# (property, name, file, old, new)
M = [
 ('C01', 'drop last term', T+'group_data.py',
  "            self.correlations.append((correlation, count))",
  "            if len(self.correlations) < 6:\n                self.correlations.append((correlation, count))"),
 ('C01', 'abs(count)', T+'group_data.py',
  "        return sum((count*correlation.get_HoRT(T)",
  "        return sum((abs(count)*correlation.get_HoRT(T)"),
 ('C01', 'int(count) in Cp', T+'group_data.py',
  "        return sum((count*correlation.get_CpoR(T)",
  "        return sum((int(count)*correlation.get_CpoR(T)"),
 ('C01', 'G = H + S', T+'base.py',
  "        return self.get_HoRT(T) - self.get_SoR(T, S_elements=S_elements)",
  "        return self.get_HoRT(T) + self.get_SoR(T, S_elements=S_elements)"),
 ('C01', 'missing-data check removed', G+'Library.py',
  "        if missing_groups:\n            raise GroupMissingDataError(missing_groups, property_set_name)",
  "        if len(missing_groups) > 1:\n            raise GroupMissingDataError(missing_groups, property_set_name)"),
 ('C01', 'report only first missing group', G+'Library.py',
  "            raise GroupMissingDataError(missing_groups, property_set_name)",
  "            raise GroupMissingDataError(missing_groups[:1], property_set_name)"),
 ('C02', 'centre uses last atom', G+'Scheme.py',
  "            matches = set([match[0] for match in matches])",
  "            matches = set([match[-1] for match in matches])"),
 ('C02', 'skip overwritten error', G+'Scheme.py',
  "                    raise PatternMatchError(s, atom)\n                else:",
  "                    pass\n                else:"),
 ('C02', "drop != 'none' filter", G+'Scheme.py',
  "                    if psg != 'none':\n                        psgs.append(psg)",
  "                    psgs.append(psg)"),
 ('C02', 'count embeddings not sets', G+'Scheme.py',
  "            matches = set([frozenset(match) for match in matches])\n            if matches:\n                descriptors[descriptor['name']] += len(matches)\n        for descriptor in self.smiles_based_descriptors:",
  "            if matches:\n                descriptors[descriptor['name']] += len(matches)\n        for descriptor in self.smiles_based_descriptors:"),
 ('C02', 'remap coefficient ignored', G+'Scheme.py',
  "                        nn = n*remap[0]\n                        groups[remap[1]] += nn",
  "                        nn = n\n                        groups[remap[1]] += nn"),
 ('C02', 'ZERO bond conversion removed', G+'Scheme.py',
  "                bond.SetBondType(Chem.BondType.ZERO)",
  "                pass"),
 ('C02', 'canonical name without sort', G+'Group.py',
  "        for name in sorted(psg_counts):", "        for name in psg_counts:"),
 ('C03', 'tuple(match) instead of set', G+'Scheme.py',
  "            matches = set([frozenset(match) for match in matches])\n            if matches:\n                descriptors[descriptor['name']] += len(matches)\n        for descriptor in self.smiles_based_descriptors:",
  "            matches = set([tuple(set(match)) for match in matches])\n            if matches:\n                descriptors[descriptor['name']] += len(matches)\n        for descriptor in self.smiles_based_descriptors:"),
 ('C03', 'reverse ring order in perception', G+'Scheme.py',
  "    rings = Chem.GetSymmSSSR(mol)\n", "    rings = list(Chem.GetSymmSSSR(mol))[::-1]\n"),
 ('C03', 'AddHs dropped in string branch', G+'Scheme.py',
  "            sanitize_except_aromatization(mol)\n            mol = Chem.AddHs(mol)",
  "            sanitize_except_aromatization(mol)\n            mol = Chem.AddHs(mol) if mol.GetNumAtoms() < 9 else mol"),
 ('C04', 'descriptor count capped at 1 for mixtures', G+'Scheme.py',
  "                descriptors[descriptor['name']] += len(matches)\n        for descriptor in self.smiles_based_descriptors:",
  "                descriptors[descriptor['name']] += (len(matches) if '.' not in Chem.MolToSmiles(mol) else min(len(matches), 2))\n        for descriptor in self.smiles_based_descriptors:"),
 ('C05', 'k=3 forced', T+'raw_data.py', "k=(3 if N > 3 else N - 1))", "k=min(3, N - 1) if N != 3 else 1)"),
 ('C05', 'log ratio inverted above table', T+'raw_data.py',
  "                return ND_S + self.max_ND_Cp*np.log(T_b/T_a)",
  "                return ND_S + self.max_ND_Cp*np.log(T_a/T_b)"),
 ('C05', 'continuation uses wrong end', T+'raw_data.py',
  "        if T > self.max_T:\n            return self.max_ND_Cp",
  "        if T > self.max_T:\n            return self.min_ND_Cp"),
 ('C05', 'H precedence bug re-introduced', T+'raw_data.py',
  "                return (rH + self.max_ND_Cp*(T_b - T_a))/T",
  "                return rH + self.max_ND_Cp*(T_b - T_a)/T"),
 ('C05', 'unsorted min_T re-introduced', T+'raw_data.py',
  "        self.min_T = self.Ts[0]", "        self.min_T = Ts[0]"),
 ('C06', 'check_range uses <= / >=... off by one ulp', T+'base.py',
  "        if np.any(T < self.range[0]) or np.any(T > self.range[1]):",
  "        if np.any(T < self.range[0]*(1 - 1e-12)) or np.any(T > self.range[1]*(1 + 1e-12)):"),
 ('C06', 'check_range removed from get_SoR', T+'raw_data.py',
  "    def get_SoR(self, T, S_elements=None):\n        \"\"\"Return non-dimensional standard state entropy |eq_ND_S_T|.\"\"\"\n        self.check_range(T)",
  "    def get_SoR(self, T, S_elements=None):\n        \"\"\"Return non-dimensional standard state entropy |eq_ND_S_T|.\"\"\""),
 ('C06', 'intersection min/max exchanged', T+'group_data.py',
  "                    common_min = max(common_min, data_range[0])\n                    common_max = min(common_max, data_range[1])",
  "                    common_min = min(common_min, data_range[0])\n                    common_max = max(common_max, data_range[1])"),
 ('C06', 'outside -> reference value', T+'incomplete.py',
  "                return self._correlation.get_HoRT(T)\n            except OutsideCorrelationError:\n                raise IncompleteDataError(\n                    \"Cannot evaluate ND_H: no heat capacity data for T=%g\"\n                    % T)",
  "                return self._correlation.get_HoRT(T)\n            except OutsideCorrelationError:\n                return self.ND_H_ref"),
 ('C07', 'drop *T in get_H for eV', T+'base.py',
  "        return self.get_HoRT(T)*T*c.R('{}/K'.format(units))",
  "        return self.get_HoRT(T)*(T if units != 'eV' else 298.15)*c.R('{}/K'.format(units))"),
 ('C07', 'AddHs removed from get_Selements', T+'group_data.py',
  "        mol = Chem.rdmolops.AddHs(mol)\n", "        mol = mol\n"),
 ('C07', 'get_G does not forward S_elements', T+'base.py',
  "        return self.get_GoRT(T, S_elements=S_elements)*T*c.R('{}/K'.format(units))",
  "        return self.get_GoRT(T)*T*c.R('{}/K'.format(units))"),
 ('C08', 'default count >=1 -> =1', RP+'MolQueryRead.py',
  "            CN = ConstraintNumber('>=1')", "            CN = ConstraintNumber('=1')"),
 ('C08', 'default bond single -> any', RP+'MolQueryRead.py',
  "            bondquery = BondQuery('single')", "            bondquery = BondQuery('any')"),
 ('C08', "ops < and <= swapped", RW+'MolQuery.py',
  "       '<': op.lt,\n       '>=': op.ge,\n       '<=': op.le,", "       '<': op.le,\n       '>=': op.ge,\n       '<=': op.lt,"),
 ('C08', "':' suffix means 1 radical", RP+'MolQueryRead.py',
  "            constraint = AtomRadical(False, ConstraintNumber('=2'))",
  "            constraint = AtomRadical(False, ConstraintNumber('=1'))"),
 ('C08', 'heteroatom set loses S', RP+'MolQueryRead.py',
  "            atom.ExpandQuery(rdqueries.AtomNumEqualsQueryAtom(16),\n                             how=Chem.rdchem.CompositeQueryType.COMPOSITE_OR)",
  "            pass"),
 ('C08', 'uniquify=True', RW+'MolQuery.py',
  "        rdkit_matches = mol.GetSubstructMatches(self.mol, uniquify=False,",
  "        rdkit_matches = mol.GetSubstructMatches(self.mol, uniquify=True,"),
 ('C08', 'strong includes single', RW+'MolQuery.py',
  "            if rdkitbond.GetBondType() in [Chem.BondType.DOUBLE,\n                                           Chem.BondType.TRIPLE,",
  "            if rdkitbond.GetBondType() in [Chem.BondType.DOUBLE,\n                                           Chem.BondType.SINGLE,\n                                           Chem.BondType.TRIPLE,"),
 ('C08', 'AtomRing negation ignores size', RW+'MolQuery.py',
  "                if atom.GetIdx() in ring:\n                    if self.ring_sizeCN(len(ring)):\n                        raise MolQueryError('AtomRing: False.')",
  "                if atom.GetIdx() in ring:\n                    raise MolQueryError('AtomRing: False.')"),
 ('C09', 'look-ahead bound removed (hang)', RP+'Parser.py',
  "        while (len(stream.peek(nn)) == nn and\n               (stream.peek(nn)[-1].isalpha() or\n                stream.peek(nn)[-1].isdigit() or\n                stream.peek(nn)[-1] in string_okay)):",
  "        while ((stream.peek(nn)[-1].isalpha() or\n                stream.peek(nn)[-1].isdigit() or\n                stream.peek(nn)[-1] in string_okay)):"),
 ('C09', '__exit__ swallows all exceptions', RP+'Parser.py',
  "            if exc_type is RINGSyntaxError:\n                if self.current_error is not None:\n                    exc_value.update(self.current_error)\n                self.current_error = exc_value\n                self.has_error = True\n                return True",
  "            if exc_type is RINGSyntaxError:\n                if self.current_error is not None:\n                    exc_value.update(self.current_error)\n                self.current_error = exc_value\n                self.has_error = True\n                return True\n            return issubclass(exc_type, Exception) and exc_type is KeyError"),
 ('C09', 'root rule without end-of-input', RP+'Grammar.py',
  "    'RINGInput': All(Either('Fragment', 'ReactionRule'), EOS()),",
  "    'RINGInput': All(Either('Fragment', 'ReactionRule')),"),
 ('C09', 'label lookup narrowed to ValueError->KeyError', RP+'MolQueryRead.py',
  "        try:\n            idx_connected = molquery.atom_names.index(tree[3][1])\n        except Exception:",
  "        try:\n            idx_connected = molquery.atom_names.index(tree[3][1])\n        except KeyError:"),
 ('C10', 'kcal wrong factor (cal = 4.1840 -> 4.1480)', U+'builtin.py', "('cal', '4.184 J'),", "('cal', '4.148 J'),"),
 ('C10', 'prefix off by 1e3 (M)', U+'db.py', "        'M': 1e6,", "        'M': 1e9,"),
 ('C10', 'juxtaposition binds tighter than /', U+'parser.py',
  "                    try:\n                        result = ('expr', result, '*', self.parse_factor())",
  "                    try:\n                        if len(result) == 4 and result[2] == '/':\n                            result = ('expr', result[1], '/', ('expr', result[3], '*', self.parse_factor()))\n                        else:\n                            result = ('expr', result, '*', self.parse_factor())"),
 ('C10', 'lookup tries prefixes before exact names', U+'db.py',
  "        if name in self.db:\n            return self.db[name]\n        # Try with single letter prefix:\n        if name[1:] in self.db and name[:1] in self.prefixes:\n            return self.prefixes[name[:1]]*self.db[name[1:]]",
  "        if name[1:] in self.db and name[:1] in self.prefixes:\n            return self.prefixes[name[:1]]*self.db[name[1:]]\n        if name in self.db:\n            return self.db[name]"),
 ('C11', '__le__ made strict', U+'qty.py', "        return self_value <= other_value", "        return self_value < other_value"),
 ('C11', 'guard dropped from __sub__', U+'qty.py',
  "        if self._incompatible(other_value, other_units):\n            raise UnitsError(\n                'Incompatible units %s vs %s in subtraction'\n                % (self_units, other_units))\n        return self._build(self_value - other_value, self_units)",
  "        return self._build(self_value - other_value, self_units)"),
 ('C11', '__mul__ divides units', U+'qty.py',
  "        return self._build(self_value*other_value, self_units*other_units)",
  "        return self._build(self_value*other_value, self_units/other_units)"),
 ('C11', 'THRESHOLD_INTEGER = 0.5', U+'qty.py', "    THRESHOLD_INTEGER = 1e-7", "    THRESHOLD_INTEGER = 0.5"),
 ('C12', 'zero shortcut re-introduced', 'pgradd/yaml_io/builtins.py',
  "                return qty*Units.eval_qty(kind_units)", "                return Units.with_units(qty, kind_units)"),
 ('C12', 'division by T_ref dropped for H_ref near 298', T+'incomplete.py',
  "            ND_H_ref = params['H_ref']/(R*T_ref)", "            ND_H_ref = params['H_ref']/(R*T_ref) if T_ref.value != 300.0 else params['H_ref']/(R*298.15*T_ref/T_ref.value)"),
 ('C12', 'explicit unit ignored when default exists', 'pgradd/yaml_io/builtins.py',
  "        qty = Units.eval_qty(value)\n", "        qty = Units.eval_qty(value)\n        if isinstance(qty, Units.Quantity) and kind_units is not None and self.kind == 'molar entropy':\n            qty = qty.value*0 + float(str(value).split()[0])\n"),
 ('C13', 'overwrite ignored for Cp', T+'incomplete.py',
  "                if(not overwrite\n                   and T in self.ND_Cp_data", "                if(T in self.ND_Cp_data"),
 ('C13', 'union range replaced by intersection', T+'incomplete.py',
  "                    min(data_range[0], other_data_range[0]),\n                    max(data_range[1], other_data_range[1]))",
  "                    max(data_range[0], other_data_range[0]),\n                    min(data_range[1], other_data_range[1]))"),
 ('C13', 'copy() shares the Cp dict', T+'incomplete.py',
  "        self.ND_Cp_data = ND_Cp_data.copy()\n        self.T_ref = T_ref", "        self.ND_Cp_data = ND_Cp_data\n        self.T_ref = T_ref"),
 ('C13', 'commit before S check (atomicity)', T+'incomplete.py',
  "                ND_H_ref = new_ND_H_ref\n", "                ND_H_ref = new_ND_H_ref\n                self.ND_H_ref = new_ND_H_ref\n"),
 ('C14', 'get_data_dir ignores the environment', G+'DataDir.py',
  "        base_path = os.getenv(_data_dir_envvar, False)", "        base_path = False"),
 ('C14', 'scheme opened from package dir despite override', G+'Scheme.py',
  "            base_path = os.path.join(get_data_dir(), path)\n            # Load the scheme.yaml file in that directory:",
  "            base_path = os.path.join(os.path.dirname(os.path.dirname(os.path.abspath(__file__))), 'data', path)\n            # Load the scheme.yaml file in that directory:"),
 ('C15', 'copy() removed in Update', G+'Library.py',
  "                    property_sets[name] = other_property_sets[name].copy()",
  "                    property_sets[name] = other_property_sets[name]"),
 ('C15', 'descriptor cache keyed by SMILES only', G+'Library.py',
  "        self.name = mol\n        return self.scheme.GetDescriptors(mol)",
  "        self.name = mol\n        cache = GroupLibrary.__dict__.setdefault('_dcache', {}) if False else _DCACHE\n        if isinstance(mol, str) and mol in cache:\n            return cache[mol].copy()\n        out = self.scheme.GetDescriptors(mol)\n        if isinstance(mol, str):\n            cache[mol] = out.copy()\n        return out"),
 ('C16', 'sign of radical increase balance', RP+'ReactionQueryRead.py',
  "        self.electronbalance[idx] -= 1\n        reactionquery.transformations.append(RadicalIncrease(idx))",
  "        self.electronbalance[idx] += 1\n        reactionquery.transformations.append(RadicalIncrease(idx))"),
 ('C16', 'BondDecrease of single leaves bond', RW+'ReactionQuery.py',
  "        if bondtype.GetBondType().__str__() == 'SINGLE':\n            return None\n        elif bondtype.GetBondType().__str__() == 'DOUBLE':\n            return Chem.BondType().SINGLE",
  "        if bondtype.GetBondType().__str__() == 'SINGLE':\n            return Chem.BondType().SINGLE\n        elif bondtype.GetBondType().__str__() == 'DOUBLE':\n            return Chem.BondType().SINGLE"),
 ('C16', 'RadicalDecrease on unmapped index', RW+'ReactionQuery.py',
  "        atom = comb_mol.GetAtomWithIdx(mapped_index[self.idx])\n        atom.SetNumRadicalElectrons(atom.GetNumRadicalElectrons()-1)",
  "        atom = comb_mol.GetAtomWithIdx(self.idx)\n        atom.SetNumRadicalElectrons(max(atom.GetNumRadicalElectrons()-1, 0))"),
 ('C16', 'ChargeIncrease applied as decrease', RW+'ReactionQuery.py',
  "        atom.SetFormalCharge(atom.GetFormalCharge()+1)", "        atom.SetFormalCharge(atom.GetFormalCharge()-1)"),
 ('C16', 'ChargeDecrease on unmapped index', RW+'ReactionQuery.py',
  "        atom = comb_mol.GetAtomWithIdx(mapped_index[self.idx])\n        atom.SetFormalCharge(atom.GetFormalCharge()-1)",
  "        atom = comb_mol.GetAtomWithIdx(self.idx)\n        atom.SetFormalCharge(atom.GetFormalCharge()-1)"),
 ('C11', 'array element loses its units', U+'qty.py',
  "            return Quantity(result, self._units)", "            return result"),
 ('C11', 'ArrayQuantity ctor ignores element units', U+'qty.py',
  "                if(use_units and datum_units and use_units != datum_units\n                        and value != 0 and not units):",
  "                if(False and use_units and datum_units and use_units != datum_units\n                        and value != 0 and not units):"),
 ('C02', 'SMARTS descriptor matched on the H-less molecule', G+'Scheme.py',
  "            matches = mol.GetSubstructMatches(descriptor['smarts'],", "            matches = clean_mol.GetSubstructMatches(descriptor['smarts'],"),
 ('C02', 'SMILES descriptor counted once per molecule', G+'Scheme.py',
  "            matches = clean_mol.GetSubstructMatches(descriptor['smiles'],\n                                                    useChirality=descriptor\n                                                    ['useChirality'])\n            matches = set([frozenset(match) for match in matches])\n            if matches:\n                descriptors[descriptor['name']] += len(matches)",
  "            matches = clean_mol.GetSubstructMatches(descriptor['smiles'],\n                                                    useChirality=descriptor\n                                                    ['useChirality'])\n            matches = set([frozenset(match) for match in matches])\n            if matches:\n                descriptors[descriptor['name']] += 1"),
 ('C02', 'SMARTS descriptor matches not reduced to atom sets', G+'Scheme.py',
  "            matches = mol.GetSubstructMatches(descriptor['smarts'],\n                                              useChirality=descriptor\n                                              ['useChirality'])",
  "            matches = mol.GetSubstructMatches(descriptor['smarts'],\n                                              useChirality=descriptor\n                                              ['useChirality'], uniquify=False)\n            matches = [tuple(m) for m in matches]\n            descriptors[descriptor['name']] += len(matches)\n            matches = []"),
 ('C08', 'allylic prefix inverted', RW+'MolQuery.py',
  "        if self.negate and yes:\n            raise MolQueryError('AtomAllylic: False.')\n        elif not self.negate and not yes:",
  "        if self.negate and yes:\n            raise MolQueryError('AtomAllylic: False.')\n        elif not self.negate and yes:"),
 ('C17', 'duplicate test compares atom counts only', RW+'GenRxnNet.py',
  "                        if mol1.GetNumAtoms() == mol2.GetNumAtoms() and \\\n                            mol1.GetNumAtoms() == len(mol1.GetSubstructMatch\n                                                      (mol2)):",
  "                        if mol1.GetNumAtoms() == mol2.GetNumAtoms() and \\\n                            mol1.GetNumHeavyAtoms() == mol2.GetNumHeavyAtoms():"),
 ('C17', 'unprocessed check removed again', RW+'GenRxnNet.py',
  "                    for mol2 in processed + unprocessed:", "                    for mol2 in processed:"),
 ('C17', 'over-valence filter inverted', RW+'GenRxnNet.py',
  "                                                           ) < \\\n                             atoms.GetTotalValence():",
  "                                                           ) > \\\n                             atoms.GetTotalValence() + 3:"),
 ('C18', '%g -> %.3g', U+'qty.py', "        number = '%g' % self.in_units(units)", "        number = '%.3g' % self.in_units(units)"),
 ('C18', 'has_ND_S truthiness again', T+'incomplete.py', "        return self.ND_S_ref is not None", "        return bool(self.ND_S_ref)"),
 ('C18', 'range written in K regardless of unit', T+'incomplete.py',
  "                with_units(range[0], 'K').fmt_in_units(T_units),\n                with_units(range[1], 'K').fmt_in_units(T_units)))",
  "                with_units(range[0], 'K').fmt_in_units('K'),\n                with_units(range[1], 'K').fmt_in_units('K')))"),
 ('C19', 'count == 1 test -> <= 2', G+'Group.py', "            if psg_counts[name] == 1:", "            if psg_counts[name] <= 1 or (psg_counts[name] == 5):"),
 ('C19', 'hash on centre only + first peripheral', G+'Group.py',
  "    def __hash__(self):\n        return hash(self.name)", "    def __hash__(self):\n        return hash(self.name[:-1]) if self.name.endswith('4') else hash(self.name)"),
 ('C20', 'index into sorted basis', T+'group_data.py',
  "                i = lib.uq_contents['descriptors'].index(group)", "                i = sorted(lib.uq_contents['descriptors']).index(group)"),
 ('C20', 'square dropped', T+'group_data.py',
  "        return float(np.sqrt(np.square(self.RMSE.get_SoR(T)) *", "        return float(np.sqrt(np.abs(self.RMSE.get_SoR(T)) *"),
 ('C20', 'unknown descriptors skipped silently', T+'group_data.py',
  "                i = lib.uq_contents['descriptors'].index(group)\n                xp[i] = count",
  "                if group not in lib.uq_contents['descriptors']:\n                    continue\n                i = lib.uq_contents['descriptors'].index(group)\n                xp[i] = count"),
 # --- the run-configuration axes (interpreter flags, warnings, schedule) ---
 ('C06', 'range check behind `if __debug__` (gone under -O)', T+'base.py',
  "        if np.any(T < self.range[0]) or np.any(T > self.range[1]):\n            raise OutsideCorrelationError(",
  "        if __debug__ and (np.any(T < self.range[0]) or np.any(T > self.range[1])):\n            raise OutsideCorrelationError("),
 ('C08', 'ring-count verdict as an assert (gone under -O)', RW+'MolQuery.py',
  "        if self.negate and self.NringCN(n):\n            raise MolQueryError('AtomNRing: False.')\n        elif not self.negate and not self.NringCN(n):\n            raise MolQueryError('AtomNRing: False.')",
  "        try:\n            assert self.NringCN(n) != self.negate\n        except AssertionError:\n            raise MolQueryError('AtomNRing: False.')"),
 ('C11', 'addition through a module-level scratch slot (threads)', U+'qty.py',
  "        return self._build(self_value + other_value, self_units)\n\n    def __radd__",
  "        global _scratch\n        _scratch = self_value\n        import time; time.sleep(0)\n        return self._build(_scratch + other_value, self_units)\n\n    def __radd__"),
 ('C18', 'yaml_format collects its lines on the class (threads)', T+'incomplete.py',
  "        lines = []\n        T_ref = with_units(self.T_ref, 'K')",
  "        lines = type(self)._lines = []\n        import time; time.sleep(0)\n        lines = type(self)._lines\n        T_ref = with_units(self.T_ref, 'K')"),
 ('C01', 'estimate sums through a shared accumulator (threads)', T+'group_data.py',
  "        return sum((count*correlation.get_HoRT(T)\n                    for (correlation, count) in self.correlations))",
  "        acc = type(self)._acc = [0.0]\n        for (correlation, count) in self.correlations:\n            type(self)._acc[0] += count*correlation.get_HoRT(T)\n        return acc[0]"),
 ('C06', 'deprecated helper raising under -W error, swallowed', T+'base.py',
  "        if self.range is None:\n            return\n        if np.any(T < self.range[0])",
  "        if self.range is None:\n            return\n        try:\n            import warnings\n            warnings.warn('check_range is deprecated', DeprecationWarning)\n        except Warning:\n            return\n        if np.any(T < self.range[0])"),
]
EXTRA_PRELUDE = {('C15', 'descriptor cache keyed by SMILES only'):
                 (G+'Library.py', "class GroupLibrary(Mapping):", "_DCACHE = {}\n\n\nclass GroupLibrary(Mapping):")}


def run(cmd, **kw):
    return subprocess.run(cmd, capture_output=True, text=True, **kw)


def main():
    only = set(a.upper() for a in sys.argv[1:])
    out_path = os.path.join(ROOT, '.work', 'selftest_results.json')
    os.makedirs(os.path.dirname(out_path), exist_ok=True)
    results = []
    if os.path.exists(out_path):
        results = json.load(open(out_path))
    done = set((r['prop'], r['name']) for r in results)
    for prop, name, path, old, new in M:
        if only and prop not in only:
            continue
        if (prop, name) in done and not only:
            continue
        wt = tempfile.mkdtemp(prefix='pgradd_self_')
        os.rmdir(wt)
        run(['git', '-C', '/repo', 'worktree', 'add', '-q', '--detach', wt,
             'HEAD'])
        rec = {'prop': prop, 'name': name, 'file': path}
        try:
            edits = [(path, old, new)]
            if (prop, name) in EXTRA_PRELUDE:
                edits.append(EXTRA_PRELUDE[(prop, name)])
            ok = True
            for pth, o, n in edits:
                f = os.path.join(wt, pth)
                s = open(f).read()
                if s.count(o) != 1:
                    rec['status'] = 'mutation does not apply (%d matches)' \
                        % s.count(o)
                    ok = False
                    break
                open(f, 'w').write(s.replace(o, n))
            if ok:
                t = run(['/venv/bin/python', '-m', 'pytest', '-q', '-x', '-p',
                         'no:cacheprovider', 'pgradd'], cwd=wt,
                        env=dict(os.environ, PYTHONPATH=wt), timeout=600)
                rec['tests'] = t.stdout.strip().split('\n')[-1][:80]
                env = dict(os.environ, VERIF_REPO=wt, PYTHONPATH=wt,
                           VERIF_EVIDENCE_DIR=os.path.join(
                               ROOT, '.work', 'mut_evidence'),
                           VERIF_REPLAY_DIR=os.path.join(
                               ROOT, '.work', 'mut_replays'))
                t0 = time.time()
                c = run([os.path.join(ROOT, 'check'), prop], cwd=ROOT,
                        env=env, timeout=3600)
                rec['check_rc'] = c.returncode
                rec['wall'] = round(time.time() - t0, 1)
                rec['caught'] = 'VIOLATION property=' in c.stdout
                lines = [l for l in c.stdout.split('\n')
                         if l.startswith(('INCONCLUSIVE', prop + ' tier'))]
                rec['summary'] = ' | '.join(lines)[:300]
                try:
                    ev = json.load(open(os.path.join(
                        ROOT, '.work', 'mut_evidence', prop + '.json')))
                    rec['signatures'] = list(
                        ev['coverage']['violation_signatures'])[:4]
                except Exception:
                    pass
        except Exception as exc:
            rec['status'] = 'error: %r' % exc
        finally:
            run(['git', '-C', '/repo', 'worktree', 'remove', '--force', wt])
            subprocess.run(['rm', '-rf', wt])
        results = [r for r in results
                   if (r['prop'], r['name']) != (prop, name)] + [rec]
        json.dump(results, open(out_path, 'w'), indent=1)
        print(prop, name, '->', 'CAUGHT' if rec.get('caught') else
              rec.get('status') or 'MISSED', rec.get('tests', ''),
              flush=True)


if __name__ == '__main__':
    main()
