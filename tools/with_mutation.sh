#!/bin/sh
# tools/with_mutation.sh <patch-file | revert:<commit>> <check args...>
# Runs a check against a scratch worktree of /repo HEAD with a mutation applied
# (outside /repo and /verif), then removes the worktree.  Maintenance helper;
# never used by registered commands.
MUT="$1"; shift
WT=$(mktemp -d /tmp/pgradd_mut_XXXXXX)
rmdir "$WT"
git -C /repo worktree add -q --detach "$WT" HEAD || exit 9
cleanup() { git -C /repo worktree remove --force "$WT" >/dev/null 2>&1; rm -rf "$WT"; }
trap cleanup EXIT
case "$MUT" in
  revert:*) git -C "$WT" revert --no-commit "${MUT#revert:}" >/dev/null 2>&1 || { echo "revert failed"; exit 9; } ;;
  *) git -C "$WT" apply "$MUT" || { echo "apply failed"; exit 9; } ;;
esac
mkdir -p /verif/.work/mut_evidence /verif/.work/mut_replays
cd /verif && VERIF_EVIDENCE_DIR=/verif/.work/mut_evidence VERIF_REPLAY_DIR=/verif/.work/mut_replays VERIF_REPO="$WT" PYTHONPATH="$WT" ./check "$@"
