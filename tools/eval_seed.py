#!/venv/bin/python
"""tools/eval_seed.py SEED_ID PROP SRC_DIR [CHECK_PROP ...]

Confirms a seeded property-breaking change delivered by a sub-agent and runs
the checks against it:
  1. copies patch.diff + demo.py (+ notes.md) to /verif/seeded/<SEED_ID>/
  2. in a scratch worktree of /repo HEAD (outside /repo and /verif):
     demo passes unmodified; patch applies; the 41 tests pass with it; demo
     fails with it
  3. runs ./check for PROP (and any extra CHECK_PROP) against the patched
     scratch copy and records whether a VIOLATION was reported
  4. writes meta.json and removes the worktree.
Maintenance tool; never used by registered commands.
"""
import json
import os
import shutil
import subprocess
import sys
import tempfile
import time

ROOT = os.path.dirname(os.path.dirname(os.path.abspath(__file__)))


def run(cmd, **kw):
    return subprocess.run(cmd, capture_output=True, text=True, **kw)


def main():
    seed_id, prop, src = sys.argv[1:4]
    checks = [prop] + sys.argv[4:]
    dst = os.path.join(ROOT, 'seeded', seed_id)
    os.makedirs(dst, exist_ok=True)
    for f in ('patch.diff', 'demo.py', 'notes.md'):
        p = os.path.join(src, f)
        if os.path.exists(p) and os.path.abspath(p) != os.path.abspath(
                os.path.join(dst, f)):
            shutil.copy(p, os.path.join(dst, f))
    meta = {'id': seed_id, 'breaks_property': prop, 'source': 'independent '
            'sub-agent given only the property text and a scratch worktree',
            'repo_head': run(['git', '-C', '/repo', 'rev-parse',
                              'HEAD']).stdout.strip()}
    notes = os.path.join(dst, 'notes.md')
    if os.path.exists(notes):
        meta['needs_to_manifest'] = open(notes).read()[:1500]
    wt = tempfile.mkdtemp(prefix='pgradd_seed_')
    os.rmdir(wt)
    run(['git', '-C', '/repo', 'worktree', 'add', '-q', '--detach', wt,
         'HEAD'])
    env = dict(os.environ, PYTHONPATH=wt)
    env.pop('PGRADD_VERIF', None)
    ran = []
    try:
        shutil.copy(os.path.join(dst, 'demo.py'), os.path.join(wt, 'demo.py'))
        d0 = run(['/venv/bin/python', 'demo.py'], cwd=wt, env=env,
                 timeout=900)
        meta['demo_unmodified_exit'] = d0.returncode
        ran.append('demo.py on unmodified HEAD: exit %d' % d0.returncode)
        a = run(['git', '-C', wt, 'apply', os.path.join(dst, 'patch.diff')])
        meta['patch_applies'] = a.returncode == 0
        if a.returncode != 0:
            meta['apply_error'] = a.stderr[-400:]
        else:
            t = run(['/venv/bin/python', '-m', 'pytest', '-q', '-p',
                     'no:cacheprovider', 'pgradd'], cwd=wt, env=env,
                    timeout=900)
            meta['tests_with_patch'] = t.stdout.strip().split('\n')[-1][:100]
            ran.append('41 tests with patch: %s' % meta['tests_with_patch'])
            d1 = run(['/venv/bin/python', 'demo.py'], cwd=wt, env=env,
                     timeout=900)
            meta['demo_patched_exit'] = d1.returncode
            meta['demo_patched_output'] = (d1.stdout + d1.stderr)[-600:]
            ran.append('demo.py with patch: exit %d' % d1.returncode)
            meta['confirmed'] = (d0.returncode == 0 and d1.returncode != 0
                                 and ' passed' in meta['tests_with_patch']
                                 and 'failed' not in meta['tests_with_patch'])
            meta['checks'] = {}
            for c in checks:
                cenv = dict(os.environ, VERIF_REPO=wt, PYTHONPATH=wt,
                            VERIF_EVIDENCE_DIR=os.path.join(
                                ROOT, '.work', 'mut_evidence'),
                            VERIF_REPLAY_DIR=os.path.join(
                                ROOT, '.work', 'mut_replays'))
                t0 = time.time()
                r = run([os.path.join(ROOT, 'check'), c], cwd=ROOT, env=cenv,
                        timeout=3600)
                rec = {'caught': 'VIOLATION property=' in r.stdout,
                       'rc': r.returncode,
                       'wall_s': round(time.time() - t0, 1)}
                try:
                    ev = json.load(open(os.path.join(
                        ROOT, '.work', 'mut_evidence', c + '.json')))
                    rec['signatures'] = list(
                        ev['coverage']['violation_signatures'])[:5]
                except Exception:
                    pass
                meta['checks'][c] = rec
                ran.append('./check %s (quick) on the patched scratch copy: '
                           '%s' % (c, 'VIOLATION reported' if rec['caught']
                                   else 'no violation (rc %s)' % r.returncode))
    finally:
        run(['git', '-C', '/repo', 'worktree', 'remove', '--force', wt])
        subprocess.run(['rm', '-rf', wt])
    meta['what_was_run'] = ran
    json.dump(meta, open(os.path.join(dst, 'meta.json'), 'w'), indent=1)
    print(json.dumps({k: meta.get(k) for k in (
        'id', 'confirmed', 'tests_with_patch', 'demo_unmodified_exit',
        'demo_patched_exit', 'checks')}, indent=1))


if __name__ == '__main__':
    main()
