#!/venv/bin/python
"""tools/reeval_all_seeds.py [SEED_ID ...]

Regression run over the kept sub-agent seeds: for every /verif/seeded/<id>/
applies patch.diff to a scratch worktree of /repo HEAD (outside /repo and
/verif), runs the quick check of the seed's property against it and records
whether a VIOLATION is (still) reported.  Writes .work/reeval_seeds.json and
updates 'checks' / 'last_reevaluated' in each meta.json.  Maintenance tool;
never used by registered commands.
"""
import json
import os
import subprocess
import sys
import tempfile
import time

ROOT = os.path.dirname(os.path.dirname(os.path.abspath(__file__)))


def run(cmd, **kw):
    return subprocess.run(cmd, capture_output=True, text=True, **kw)


def main():
    only = set(sys.argv[1:])
    out = {}
    base = os.path.join(ROOT, 'seeded')
    head = run(['git', '-C', '/repo', 'rev-parse', 'HEAD']).stdout.strip()
    for sid in sorted(os.listdir(base)):
        d = os.path.join(base, sid)
        if not os.path.isdir(d) or (only and sid not in only):
            continue
        meta_p = os.path.join(d, 'meta.json')
        meta = json.load(open(meta_p))
        prop = meta['breaks_property']
        wt = tempfile.mkdtemp(prefix='pgradd_re_')
        os.rmdir(wt)
        run(['git', '-C', '/repo', 'worktree', 'add', '-q', '--detach', wt,
             'HEAD'])
        rec = {'property': prop}
        try:
            a = run(['git', '-C', wt, 'apply', os.path.join(d, 'patch.diff')])
            if a.returncode != 0:
                # the repository moved on (a later fix touched the same
                # lines): try with reduced context
                a = run(['git', '-C', wt, 'apply', '-C1', '--recount',
                         os.path.join(d, 'patch.diff')])
            rec['applies'] = a.returncode == 0
            if not rec['applies'] and meta.get('superseded_by_repository_fix'):
                rec['superseded'] = True
                rec['caught'] = True
            if rec['applies']:
                env = dict(os.environ, VERIF_REPO=wt, PYTHONPATH=wt,
                           VERIF_EVIDENCE_DIR=os.path.join(
                               ROOT, '.work', 'mut_evidence'),
                           VERIF_REPLAY_DIR=os.path.join(
                               ROOT, '.work', 'mut_replays'))
                t0 = time.time()
                r = run([os.path.join(ROOT, 'check'), prop], cwd=ROOT,
                        env=env, timeout=3600)
                rec['caught'] = 'VIOLATION property=' in r.stdout
                rec['rc'] = r.returncode
                rec['wall_s'] = round(time.time() - t0, 1)
                if not rec['caught']:
                    # seeds that were accepted as caught by ANOTHER property's
                    # check (recorded in meta['checks'])
                    for other, o in (meta.get('checks') or {}).items():
                        if other != prop and o.get('caught'):
                            r2 = run([os.path.join(ROOT, 'check'), other],
                                     cwd=ROOT, env=env, timeout=3600)
                            if 'VIOLATION property=' in r2.stdout:
                                rec['caught'] = True
                                rec['caught_by'] = other
                                break
        finally:
            run(['git', '-C', '/repo', 'worktree', 'remove', '--force', wt])
            subprocess.run(['rm', '-rf', wt])
        out[sid] = rec
        meta['last_reevaluated'] = {'repo_head': head, 'caught': rec.get(
            'caught'), 'applies': rec.get('applies')}
        json.dump(meta, open(meta_p, 'w'), indent=1)
        print(sid, rec, flush=True)
        json.dump(out, open(os.path.join(ROOT, '.work', 'reeval_seeds.json'),
                            'w'), indent=1)
    bad = [k for k, v in out.items() if not v.get('caught')]
    print('SEEDS', len(out), 'CAUGHT', len(out) - len(bad), 'NOT', bad)


if __name__ == '__main__':
    main()
