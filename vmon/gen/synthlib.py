"""Synthetic libraries written as YAML into a temp dir and loaded through the
real loader (shared by C01, C06, C07, C20)."""
import random

from vmon.core import libs
from vmon.gen import libfiles

_synth = {}
ALPHABET = ['C', 'H', 'O', 'C[d]', 'CO', 'Pt', 'N[A]', 'C[.]']


def canonical(c, ps):
    name = c
    for p in sorted(set(ps)):
        k = ps.count(p)
        name += '(%s)' % p + ('%d' % k if k > 1 else '')
    return name


def synthetic_library(key):
    """A library generated from `key`.  Returns (lib, meta)."""
    if key in _synth:
        return _synth[key]
    rng = random.Random('synthlib:%s' % key)
    n = rng.randint(2, 9)
    groups = {}
    while len(groups) < n:
        c = rng.choice(ALPHABET)
        ps = sorted(rng.choice(ALPHABET) for _ in range(rng.randint(1, 4)))
        name = canonical(c, ps)
        if name not in groups:
            if rng.random() < 0.12:
                groups[name] = None          # entry without a property set
            else:
                groups[name] = libfiles.random_group(rng)
    descs = {}
    for i in range(rng.randint(0, 3)):
        descs['corr%d_%s' % (i, key)] = libfiles.random_group(rng)
    text = libfiles.render_library(groups, descs)
    with libfiles.TempTree() as tree:
        p = libfiles.write_library(tree, 'library.yaml', text)
        lib = libs.fresh(p)
    meta = {'groups': groups, 'descs': descs, 'text': text}
    _synth[key] = (lib, meta)
    return _synth[key]


def get_lib(spec, fresh=False):
    """spec: shipped library name, or ['synthetic', key]."""
    if isinstance(spec, str):
        return libs.fresh(spec) if fresh else libs.get(spec)
    if fresh:
        _synth.pop(spec[1], None)
    return synthetic_library(spec[1])[0]


def get_meta(spec):
    return synthetic_library(spec[1])[1]
