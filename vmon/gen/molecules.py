"""Molecule generators (C02, C03, C04, C07, C08, C15, C16, C17).

All generators return SMILES strings that RDKit parses and sanitises; which
of them a given scheme can decompose is *measured* by the checks, not assumed.
"""
import itertools
import random

from rdkit import Chem

VALENCE = {'C': 4, 'N': 3, 'O': 2}

CURATED = [
    # alkanes, branching (gauche), quaternary
    'C', 'CC', 'CCC', 'CCCC', 'CCCCC', 'CCCCCC', 'CC(C)C', 'CC(C)(C)C',
    'CCC(C)C', 'CC(C)C(C)C', 'CC(C)(C)C(C)(C)C', 'CCC(C)(C)CC', 'CCC(CC)CC',
    'CC(C)CC(C)C', 'CCCC(C)C(C)C',
    # alkenes incl. cis / trans, dienes, allenes, alkynes
    'C=C', 'CC=C', 'CC=CC', r'C/C=C\C', r'C/C=C/C', 'CC(C)=C', 'CC(C)=CC',
    'CC(C)=C(C)C', 'C=CC=C', 'C=CCC=C', 'C=C=C', 'CC=C=C', 'CC=C=CC', 'C#C',
    'CC#C', 'CC#CC', 'C=CC#C', 'C#CC#C', r'CC/C=C\CC', r'CC/C=C/CC',
    r'C/C=C\C(C)C', 'C=CCO', 'C=CC=O', 'C=C(C)C=O',
    # alcohols, ethers, peroxides, carbonyls, acids, esters, ketene
    'O', 'CO', 'CCO', 'CC(C)O', 'CC(C)(C)O', 'OCCO', 'OCC(O)CO', 'COC',
    'CCOCC', 'COCOC', 'COO', 'COOC', 'OO', 'C=O', 'CC=O', 'CC(C)=O',
    'CCC(=O)CC', 'O=CC=O', 'CC(=O)C(C)=O', 'OC=O', 'CC(O)=O', 'CC(=O)OC',
    'COC=O', 'CC(=O)OC(C)=O', 'C=C=O', 'CC=C=O', 'O=C=O', '[C-]#[O+]',
    'OC(O)=O', 'COC(=O)OC', 'OCC=O', 'CC(O)C=O', 'OC(=O)C(O)=O',
    'CC(=O)CC(C)=O', 'OCC(O)C(O)C(O)C(O)C=O',
    # rings 3-8, spiro, fused, bridged, ring ethers / lactones
    'C1CC1', 'C1CCC1', 'C1CCCC1', 'C1CCCCC1', 'C1CCCCCC1', 'C1CCCCCCC1',
    'CC1CC1', 'CC1CCCCC1', 'C1=CC1', 'C1=CCC1', 'C1=CCCC1', 'C1=CCCCC1',
    'C1=CC=CC1', 'C1=CCC=CC1', 'C1=CC=CCC1', 'C1CC2CC1CC2', 'C1CC2CCC1C2',
    'C1CCC2CCCCC2C1', 'C1CCC2(C1)CCCC2', 'C1CC11CC1', 'C1CC2CC12', 'C1CO1',
    'C1COC1', 'C1CCOC1', 'C1CCOCC1', 'C1COCCO1', 'C1COCO1', 'O=C1CCCC1',
    'O=C1CCCCC1', 'O=C1CCCO1', 'O=C1CCC1', 'C1=COC=C1', 'C1=COCC1',
    'O=C1C=CC(=O)C=C1', 'OC1CCCCC1',
    # aromatics: benzene derivatives, ortho / meta / para, fused, biphenyl
    'c1ccccc1', 'Cc1ccccc1', 'CCc1ccccc1', 'Cc1ccccc1C', 'Cc1cccc(C)c1',
    'Cc1ccc(C)cc1', 'Cc1cccc(C)c1C', 'Cc1cc(C)cc(C)c1', 'Oc1ccccc1',
    'COc1ccccc1', 'Oc1ccccc1O', 'O=Cc1ccccc1', 'CC(=O)c1ccccc1',
    'OC(=O)c1ccccc1', 'C=Cc1ccccc1', 'C#Cc1ccccc1', 'c1ccc(cc1)-c1ccccc1',
    'c1ccc2ccccc2c1', 'Cc1ccc2ccccc2c1', 'c1ccc2cc3ccccc3cc2c1',
    'c1ccc2c(c1)ccc1ccccc21', 'c1cc2ccc3cccc4ccc(c1)c2c34', 'C1Cc2ccccc2C1',
    'C1CCc2ccccc2C1', 'c1ccc2CCCCc2c1', 'C1=CC=CC=C1', 'CC1=CC=CC=C1',
    'c1ccoc1', 'c1ccc2occc2c1', 'Cc1ccco1',
    # radicals
    '[CH3]', 'C[CH2]', 'C[CH]C', 'CC(C)[CH2]', 'C[C](C)C', 'C=C[CH2]',
    '[CH2]c1ccccc1', 'C[O]', 'CC[O]', '[OH]', 'C[C]=O', '[CH]=O', 'C=[CH]',
    '[CH2]O', 'C[CH]O', '[CH2]C=O', 'CO[O]', '[CH2]', 'C[CH]', '[CH]',
    '[H]', '[H][H]', '[O]', '[C]', 'O=[C]O', '[CH2]OC', 'CC(=O)[O]',
    # nitrogen (PPY / Benson nitrogenates)
    'N', 'CN', 'CNC', 'CN(C)C', 'CCN', 'NCCN', 'C#N', 'CC#N', 'C=CC#N',
    'NC=O', 'CC(N)=O', 'c1ccncc1', 'Cc1ccccn1', 'c1cc[nH]c1', 'C1CCNC1',
    'C1CCNCC1', 'N#N', 'CN=NC', 'NN', 'CNN', 'C[N+](=O)[O-]', 'CON=O',
    'c1ccc(N)cc1', 'C=NC', 'CC=NC', 'N=C=O', 'C[NH]', 'C[N]C',
]

ADSORBATES = [
    # metallacycles: one surface atom bridged twice / two surface atoms
    'C1C[Pt]1', '[Pt]1OCC1', 'CC1C[Pt]1', 'C1CC[Pt]1', 'C1[Pt][Pt]1',
    'C1C[Pt][Pt]1', 'O=C1C[Pt]1',
    '[Pt]', '[H][Pt]', 'O[Pt]', 'O=[Pt]', 'C[Pt]', 'C([Pt])[Pt]',
    'C([Pt])([Pt])[Pt]', 'C([Pt])([Pt])([Pt])[Pt]', 'CC[Pt]', 'CC([Pt])[Pt]',
    'CC([Pt])([Pt])[Pt]', 'C([Pt])C[Pt]', '[Pt]C([Pt])C[Pt]',
    '[Pt]C([Pt])C([Pt])[Pt]', '[Pt]C([Pt])C([Pt])([Pt])[Pt]',
    '[Pt]C([Pt])([Pt])C([Pt])([Pt])[Pt]', 'C=C[Pt]', 'C(=C[Pt])[Pt]',
    'C#C[Pt]', 'CO[Pt]', 'CCO[Pt]', 'OC[Pt]', 'OC([Pt])[Pt]',
    'OC([Pt])([Pt])[Pt]', 'O=C[Pt]', 'O=C([Pt])[Pt]', 'CC(=O)[Pt]',
    'C(=O)([Pt])O', 'OC(=O)[Pt]', 'O=C([Pt])O[Pt]', 'CC([Pt])O',
    'CC([Pt])O[Pt]', 'C(O[Pt])C[Pt]', 'OCC([Pt])[Pt]', 'OCC(O)C[Pt]',
    'OCC(O[Pt])CO', 'OCC([Pt])(O)CO', '[Pt]C([Pt])C([Pt])([Pt])C=O',
    'C([Pt])([Pt])(CCCCC)C([Pt])([Pt])C', 'CCCCCC([Pt])([Pt])C([Pt])([Pt])C',
    'CCC[Pt]', 'CC([Pt])C', 'CC(C)([Pt])C', 'C([Pt])CC[Pt]',
    'C([Pt])C([Pt])C[Pt]', 'C1CC1[Pt]', '[Pt]OO[Pt]', 'OO[Pt]',
    '[Pt]CC(=O)[Pt]', 'O=CC[Pt]', 'O=CC([Pt])[Pt]', 'OC(C[Pt])C[Pt]',
    'C([Pt])([Pt])=C([Pt])[Pt]', 'CC([Pt])=C([Pt])[Pt]', '[Pt]C#C[Pt]',
    'CC(O)([Pt])C', 'CC(=O)C[Pt]', 'CC(=O)O[Pt]', 'COC[Pt]',
    'C([Pt])OC[Pt]', 'OC(O)[Pt]', 'OC(O)([Pt])[Pt]',
]

# molecules aimed at the correction descriptors / patterns of the shipped
# schemes that generic generation rarely reaches (which of them actually fire
# is measured and reported in the C02 evidence)
TARGETED = [
    # size: more than a thousand non-unique embeddings of a one-atom pattern
    # (24 per sp3 carbon), macrocycles
    'C' * 45, 'C' * 60, 'CC(C)' * 12 + 'C', 'C' * 20 + 'O' + 'C' * 25,
    'C1CCCCCCCCC1', 'C1CCCCCCCCCCC1', 'O=C1CCCCCCCCCCC1',
    # an aromatic ring fused to / bridged with aliphatic rings
    'c1ccc2CCCc2c1', 'c1ccc2CCCCc2c1', 'C1CC2CCCC2C1', 'C1CCC2CC2C1',
    'c1ccc2CCc2c1',
    'CC(C)C(C)(C)C', 'CC(C)(C)C(C)(C)C', 'CC(C)C(C)C', 'CCC(C)C(C)(C)CC',
    'CC(C)C(C)=C', 'CC(C)(C)C(C)=C', 'CC(C)(C)C=C', 'CC(C)C=C',
    'CC(C)(C)C(=C)C(C)(C)C', r'C/C(CC)=C(C)/CC', r'C/C(CC)=C(/C)CC',
    r'CC/C(C)=C(/C)CC', r'C/C=C\C(C)(C)C', r'C/C=C/C(C)(C)C',
    'CC=CC(C)(C)C', r'CC(C)(C)/C=C\C(C)(C)C', r'CC(C)(C)/C=C/C(C)(C)C',
    'CC(C)(C)C=CC(C)(C)C', r'C/C(=C/C(C)(C)C)C', r'CC(C)(C)/C(C)=C\C',
    r'C/C=C\C=C/C', r'C/C=C\C=C\C', r'C/C=C\CC', r'CC/C=C\C(C)C',
    'CC(C)(C)OC(C)(C)C', 'CC(C)OC(C)(C)C', 'CC(C)OC(C)C', 'COC(C)(C)C',
    'C=C1C=C1', 'C=C1CC1', 'C=C1CCC1', 'C1=CCCCCC1', 'C1=CC=CCCC1',
    'C1=CC=CC=CC1', 'C1=CCCCCCC1', r'C1=C\CCCCCC/1', r'C1=C/CCCCCC/1',
    'C1=CC=CC=CCC1', 'C1=CC=CC=CC=C1', 'C1CCCCCCCC1', 'C1=CCCCCCCC1',
    r'C1=C\CCCCCCC/1', r'C1=C/CCCCCCC/1', 'C1C2CC12', 'C1CC2CC2C1',
    'C1CCC2CC2C1', 'C1CCCC2CC2C1', 'C1CCCCC2CC2C1', 'C1COCOC1', 'C1OCOCO1',
    'C1CC=COC1', 'O=C1CCC(=O)O1', 'O=C1CCCC(=O)O1', 'O=C1C=CC(=O)O1',
    'C1CCOC1', 'C1=CCC=C1', 'C1CC=CC1', 'C1=CCOC1', 'C1=COC=CC1',
    'C$C', 'O=C(=O)~[Pt]', 'C~[Pt]', 'O~[Pt]', 'CC~[Pt]', 'O=C=O',
    'c1ccc2cc3ccccc3cc2c1', 'c1cc2cccc3ccc4cccc1c4c32',
    'Cc1ccccc1C(C)(C)C', 'CC(C)(C)c1ccccc1', 'Cc1cccc(C)c1C',
    'OC1CCCO1', 'CC1CO1', 'CC1(C)CO1', 'C1CC1C', 'CC1=CC1',
    '[C]=C', 'CC=[C]', '[C]=O', '[C]C', '[C]CC', '[C]O', 'C[C]C', '[C]#C',
    'C1CCCCCC1', 'C1CC2CC2C1', 'C1CCOCC1', 'C1CC2CCC12',
]


def surface_chains(metal='Pt'):
    """Chains of 2-4 carbons (and C-O ends) whose end atoms carry 1-3 metal
    bonds and whose inner carbons carry a strong bond or not: the shapes the
    surface ring-strain descriptors are written for."""
    M = '[%s]' % metal
    ends_c = {1: 'C%s' % M, 2: 'C(%s)%s' % (M, M), 3: 'C(%s)(%s)%s' % (M, M,
                                                                     M)}
    out = []
    starts = {1: '%sC' % M, 2: '%sC(%s)' % (M, M), 3: '%sC(%s)(%s)' % (M, M,
                                                                     M)}
    inner = ['', 'C', 'C(=O)', 'C(=C)', 'C(=O)C(=O)', 'CC', 'C(=O)C',
             'C(=C)C(=O)', 'O', 'OO', 'CO', 'OC', 'OC(=O)', 'C(=O)O', 'COC',
             'OC(=C)']
    for a in (1, 2, 3):
        for mid in inner:
            for b in (1, 2, 3):
                out.append(starts[a] + mid + ends_c[b])
            out.append(starts[a] + mid + 'O%s' % M)
            out.append(starts[a] + mid + 'C(%s)=O' % M)
            out.append(starts[a] + mid + 'C(%s)=C' % M)
            out.append(starts[a] + mid + 'C(%s)(%s)O' % (M, M))
    out += ['OC(%s)(%s)C(%s)(%s)%s' % (M, M, M, M, M),
            'OC(%s)C(%s)(%s)%s' % (M, M, M, M),
            '%sOC(%s)(%s)C(%s)%s' % (M, M, M, M, M)]
    return out


OUTSIDE = ['CS', 'CCl', 'CF', 'C[Si](C)(C)C', 'CP', 'C[N+](C)(C)C', 'C[O-]',
           '[NH4+]', 'CBr', 'O=S=O', 'c1ccsc1', '[Na+].[Cl-]', 'CB(C)C']

CHARGED = ['[CH3+]', '[CH3-]', 'C[O-]', 'C[NH3+]', '[OH-]', '[OH3+]',
           '[NH4+]', 'C[CH2+]', 'C[CH2-]', '[NH3+]CC([O-])=O', 'C[N+](C)(C)C',
           '[CH2+][CH2-]', '[O-]C=O', 'C=[OH+]', '[CH2-][O+]=C']


def canon(smi):
    m = Chem.MolFromSmiles(smi)
    if m is None:
        return None
    return Chem.MolToSmiles(m)


def swap_metal(smi, metal):
    return smi.replace('[Pt]', '[%s]' % metal) if metal != 'Pt' else smi


# ----------------------------------------------------------------------
def enumerate_small(nmax=3, elements=('C', 'O'), max_radicals=2,
                    max_order=3):
    """All connected multigraphs on <= nmax heavy atoms from `elements`,
    bond orders 1..max_order, rings allowed (3-/4-rings), heavy-atom valences
    C<=4, N<=3, O<=2, per atom 0-2 radical electrons (total <= max_radicals)
    subtracted from the H count; de-duplicated by canonical SMILES."""
    seen = {}
    for n in range(1, nmax + 1):
        pairs = list(itertools.combinations(range(n), 2))
        for elems in itertools.combinations_with_replacement(elements, n):
            for orders in itertools.product(range(max_order + 1),
                                            repeat=len(pairs)):
                deg = [0] * n
                adj = [[] for _ in range(n)]
                for (a, b), o in zip(pairs, orders):
                    if o:
                        deg[a] += o
                        deg[b] += o
                        adj[a].append(b)
                        adj[b].append(a)
                if any(deg[i] > VALENCE[elems[i]] for i in range(n)):
                    continue
                # connected?
                stack, vis = [0], {0}
                while stack:
                    x = stack.pop()
                    for y in adj[x]:
                        if y not in vis:
                            vis.add(y)
                            stack.append(y)
                if len(vis) != n:
                    continue
                skeleton = (elems, orders)
                for rads in itertools.product(range(3), repeat=n):
                    if sum(rads) > max_radicals:
                        continue
                    if any(deg[i] + rads[i] > VALENCE[elems[i]]
                           for i in range(n)):
                        continue
                    smi = _build(elems, pairs, orders, deg, rads)
                    if smi and smi not in seen:
                        seen[smi] = skeleton
    return sorted(seen)


_BT = {1: Chem.BondType.SINGLE, 2: Chem.BondType.DOUBLE,
       3: Chem.BondType.TRIPLE}


def _build(elems, pairs, orders, deg, rads):
    m = Chem.RWMol()
    for i, e in enumerate(elems):
        a = Chem.Atom(e)
        a.SetNoImplicit(True)
        a.SetNumExplicitHs(VALENCE[e] - deg[i] - rads[i])
        a.SetNumRadicalElectrons(rads[i])
        m.AddAtom(a)
    for (a, b), o in zip(pairs, orders):
        if o:
            m.AddBond(a, b, _BT[o])
    try:
        Chem.SanitizeMol(m)
        smi = Chem.MolToSmiles(m)
        if Chem.MolFromSmiles(smi) is None:
            return None
        return smi
    except Exception:
        return None


# ----------------------------------------------------------------------
def grow(rng, max_heavy=10, elements=('C', 'C', 'C', 'O'), rings=True,
         aromatic=True, radicals=True):
    """Random molecule grower: attaches atoms / multiple bonds / ring closures
    / a phenyl ring to random sites, respecting valence."""
    m = Chem.RWMol()
    free = {}

    def add(e):
        i = m.AddAtom(Chem.Atom(e))
        free[i] = VALENCE[e]
        return i

    add(rng.choice(elements))
    target = rng.randint(2, max_heavy)
    guard = 0
    while m.GetNumAtoms() < target and guard < 60:
        guard += 1
        sites = [i for i, f in free.items() if f > 0]
        if not sites:
            break
        s = rng.choice(sites)
        op = rng.random()
        if op < 0.55:
            j = add(rng.choice(elements))
            m.AddBond(s, j, Chem.BondType.SINGLE)
            free[s] -= 1
            free[j] -= 1
        elif op < 0.72 and free[s] >= 2:
            e = rng.choice(['C', 'C', 'O'])
            j = add(e)
            m.AddBond(s, j, Chem.BondType.DOUBLE)
            free[s] -= 2
            free[j] -= 2
        elif op < 0.77 and free[s] >= 3:
            j = add('C')
            m.AddBond(s, j, Chem.BondType.TRIPLE)
            free[s] -= 3
            free[j] -= 3
        elif op < 0.87 and rings:
            # ring closure to an atom at topological distance 2..7
            dm = Chem.GetDistanceMatrix(m)
            cands = [j for j in sites if j != s and 2 <= dm[s][j] <= 7 and
                     m.GetBondBetweenAtoms(s, int(j)) is None]
            if cands:
                j = int(rng.choice(cands))
                m.AddBond(s, j, Chem.BondType.SINGLE)
                free[s] -= 1
                free[j] -= 1
        elif aromatic and m.GetNumAtoms() + 6 <= max_heavy + 2:
            ring = [add('C') for _ in range(6)]
            for k in range(6):
                m.AddBond(ring[k], ring[(k + 1) % 6],
                          Chem.BondType.DOUBLE if k % 2 == 0
                          else Chem.BondType.SINGLE)
                free[ring[k]] -= 3
            for k in range(6):
                free[ring[k]] = 1
            m.AddBond(s, ring[0], Chem.BondType.SINGLE)
            free[s] -= 1
            free[ring[0]] -= 1
    if radicals and rng.random() < 0.2:
        sites = [i for i, f in free.items() if f > 0]
        if sites:
            s = rng.choice(sites)
            a = m.GetAtomWithIdx(s)
            a.SetNumRadicalElectrons(1)
            a.SetNoImplicit(True)
            a.SetNumExplicitHs(free[s] - 1)
    try:
        Chem.SanitizeMol(m)
        smi = Chem.MolToSmiles(m)
        if Chem.MolFromSmiles(smi) is None:
            return None
        return smi
    except Exception:
        return None


def adsorb(rng, smi, metal='Pt', kmax=4):
    """Replace k in 1..kmax C-H / O-H hydrogens by bonds to metal atoms."""
    m = Chem.MolFromSmiles(smi)
    if m is None:
        return None
    sites = []
    for a in m.GetAtoms():
        if a.GetSymbol() in ('C', 'O') and not a.GetIsAromatic():
            sites += [a.GetIdx()] * a.GetTotalNumHs()
    if not sites:
        return None
    k = rng.randint(1, min(kmax, len(sites)))
    chosen = rng.sample(sites, k)
    rw = Chem.RWMol(m)
    for idx in chosen:
        a = rw.GetAtomWithIdx(idx)
        h = a.GetTotalNumHs()
        rad = a.GetNumRadicalElectrons()
        j = rw.AddAtom(Chem.Atom(metal))
        rw.AddBond(idx, j, Chem.BondType.SINGLE)
        a.SetNoImplicit(True)
        a.SetNumExplicitHs(h - 1)
        a.SetNumRadicalElectrons(rad)
    try:
        Chem.SanitizeMol(rw)
        out = Chem.MolToSmiles(rw)
        if Chem.MolFromSmiles(out) is None:
            return None
        return out
    except Exception:
        return None


def join(rng, a, b, spacer=None):
    """Link molecule a and molecule b through a new single bond between an
    H-bearing carbon of each (optionally through a CH2 spacer): the result
    contains both structural motifs in one connected molecule."""
    ma, mb = Chem.MolFromSmiles(a), Chem.MolFromSmiles(b)
    if ma is None or mb is None:
        return None

    def sites(m):
        return [x.GetIdx() for x in m.GetAtoms() if x.GetSymbol() == 'C' and
                not x.GetIsAromatic() and x.GetTotalNumHs() > 0 and
                x.GetNumRadicalElectrons() == 0]
    sa, sb = sites(ma), sites(mb)
    if not sa or not sb:
        return None
    combo = Chem.RWMol(Chem.CombineMols(ma, mb))
    i = rng.choice(sa)
    j = rng.choice(sb) + ma.GetNumAtoms()
    ends = [i, j]
    hcount = {idx: combo.GetAtomWithIdx(idx).GetTotalNumHs() for idx in ends}
    if spacer:
        k = combo.AddAtom(Chem.Atom('C'))
        combo.AddBond(i, k, Chem.BondType.SINGLE)
        combo.AddBond(k, j, Chem.BondType.SINGLE)
    else:
        combo.AddBond(i, j, Chem.BondType.SINGLE)
    for idx in ends:
        at = combo.GetAtomWithIdx(idx)
        at.SetNoImplicit(True)
        at.SetNumExplicitHs(hcount[idx] - 1)
    try:
        Chem.SanitizeMol(combo)
        out = Chem.MolToSmiles(combo)
        return out if Chem.MolFromSmiles(out) is not None else None
    except Exception:
        return None


MOTIFS = [r'C/C=C\C', r'C/C=C/C', 'CC=C', 'CC(C)=C', 'CC(C)=CC',
          r'C/C=C\C(C)(C)C', 'CC=CC(C)(C)C', 'C=CC=C', r'C/C=C\C=C',
          'CC(C)C', 'CC(C)(C)C', 'CC(C)C(C)C', 'C1CC1', 'C1CCC1', 'C1CCCC1',
          'C1=CCCC1', 'C1CO1', 'COC', 'CC(C)OC(C)C', 'CC(=O)C', 'CC(=O)OC',
          'Cc1ccccc1', 'Cc1ccccc1C', 'CC#C', 'CC=C=C', 'CCO', 'CC=O',
          'C[Pt]', 'CC([Pt])[Pt]', 'CC([Pt])([Pt])[Pt]', 'CC([Pt])=O',
          'CC(=O)O[Pt]', 'CO[Pt]', '[Pt]CC[Pt]', 'CC([Pt])O', 'C[CH2]',
          'CC(C)=C(C)C', r'C/C(C)=C\C']


def stereo_alkenes():
    """Every acyclic C=C with defined E/Z stereo over a small substituent
    alphabet: di-, tri- and tetrasubstituted, both configurations, written
    R1/C(R2)=C(/R3)R4 and R1/C(R2)=C(\\R3)R4 (R2, R4 possibly H).  The tri-
    substituted ones are where a cis/trans correction depends on WHICH
    geminal substituent is taken as the reference."""
    pre = ['C', 'CC', 'CC(C)', 'CC(C)(C)', 'C=C', 'OC']
    post = ['', 'C', 'CC', 'C(C)C', 'C(C)(C)C', 'C=C', 'CO']
    out = []
    seen = set()
    for r1 in pre:
        for r2 in post:
            for r3 in pre:
                for r4 in post:
                    for d in ('/', '\\'):
                        s = '%s/C%s=C(%s%s)%s' % (
                            r1, '(%s)' % r2 if r2 else '', d, r3, r4)
                        m = Chem.MolFromSmiles(s)
                        if m is None:
                            continue
                        if not any(b.GetStereo() in (
                                Chem.BondStereo.STEREOE, Chem.BondStereo.STEREOZ,
                                Chem.BondStereo.STEREOCIS,
                                Chem.BondStereo.STEREOTRANS)
                                for b in m.GetBonds()):
                            continue
                        c = Chem.MolToSmiles(m)
                        if c not in seen:
                            seen.add(c)
                            out.append(c)
    return out


def pool(seed, n_random=60, n_ads=40, metal='Pt', nitrogen=False,
         max_heavy=10, n_joined=0):
    """Curated + random + adsorbate pool, canonical and de-duplicated."""
    rng = random.Random('pool:%s:%s:%s:%s' % (seed, n_random, n_ads, metal))
    out = []
    seen = set()

    def push(s):
        c = canon(s) if s else None
        if c and c not in seen:
            seen.add(c)
            out.append(c)

    for s in CURATED + TARGETED:
        push(swap_metal(s, metal))
    for s in ADSORBATES:
        push(swap_metal(s, metal))
    for s in surface_chains(metal):
        push(s)
    elements = ('C', 'C', 'C', 'O', 'N') if nitrogen else ('C', 'C', 'C',
                                                            'O')
    tries = 0
    base = []
    while len(base) < n_random and tries < n_random * 20:
        tries += 1
        s = grow(rng, max_heavy=max_heavy, elements=elements)
        if s and canon(s) not in seen:
            base.append(s)
            push(s)
    tries = 0
    n0 = len(out)
    while len(out) - n0 < n_ads and tries < n_ads * 20:
        tries += 1
        src = rng.choice(base + CURATED[:90])
        push(adsorb(rng, src, metal=metal))
    tries = 0
    n0 = len(out)
    while len(out) - n0 < n_joined and tries < n_joined * 10:
        tries += 1
        a, b = rng.choice(MOTIFS), rng.choice(MOTIFS)
        push(join(rng, swap_metal(a, metal), swap_metal(b, metal),
                  spacer=rng.random() < 0.4))
    return out


def heavy_atoms(smi):
    m = Chem.MolFromSmiles(smi)
    return m.GetNumHeavyAtoms() if m is not None else 0
