"""Generator of heat-capacity tables / reference data (C05, C06, C13, C18).

The class grid (N x T_ref placement x range class x supply order) is
enumerated exhaustively by `class_grid`; values inside a class are random but
reproducible from the case seed.  A case is a plain JSON-able dict.
"""
import math
import random

PLACEMENTS = ['below', 'first_knot', 'inside', 'interior_knot', 'last_knot',
              'above']
RANGES = ['tight', 'wide']
ORDERS = ['sorted', 'reversed', 'shuffled']
SHAPES = ['rising', 'oscillating', 'negative', 'zeros', 'flat']


def class_grid(nmax=16):
    out = []
    for n in range(1, nmax + 1):
        for pl in PLACEMENTS:
            if pl == 'interior_knot' and n < 3:
                continue
            if pl == 'inside' and n < 2:
                continue
            if pl == 'last_knot' and n < 2:
                continue
            for rg in RANGES:
                for od in ORDERS:
                    if od != 'sorted' and n < 2:
                        continue
                    if od == 'shuffled' and n < 3:
                        continue
                    out.append((n, pl, rg, od))
    return out


def _temps(rng, n):
    lo = rng.choice([100.0, 200.0, 250.0, 298.15, 300.0, 400.0])
    if rng.random() < 0.5:
        step = rng.choice([25.0, 50.0, 100.0, 200.0])
        ts = [lo + i * step for i in range(n)]
    else:
        ts = [lo]
        for _ in range(n - 1):
            ts.append(round(ts[-1] + rng.choice([7.5, 20.0, 33.0, 50.0, 100.0,
                                                 150.0, 300.0]) *
                            rng.uniform(0.5, 1.5), 3))
    return ts


def _cps(rng, ts, shape):
    n = len(ts)
    if shape == 'rising':
        a = rng.uniform(1.0, 8.0)
        b = rng.uniform(0.001, 0.01)
        return [round(a + b * (t - ts[0]) + rng.uniform(-0.05, 0.05), 6)
                for t in ts]
    if shape == 'oscillating':
        return [round(rng.uniform(2.0, 6.0) * (1 if i % 2 else -0.5) +
                      rng.uniform(-1, 1), 6) for i in range(n)]
    if shape == 'negative':
        return [round(-rng.uniform(0.5, 9.0), 6) for _ in range(n)]
    if shape == 'zeros':
        return [0.0 if rng.random() < 0.5 else round(rng.uniform(-3, 3), 6)
                for _ in range(n)]
    v = round(rng.uniform(-5, 5), 6)
    return [v for _ in range(n)]


def make_case(rng, n, placement, range_class, order, shape=None):
    ts = _temps(rng, n)
    shape = shape or rng.choice(SHAPES)
    cps = _cps(rng, ts, shape)
    t0, t1 = ts[0], ts[-1]
    if placement == 'below':
        t_ref = round(t0 - rng.choice([0.5, 1.85, 50.0, 80.0]) *
                      rng.uniform(0.5, 1.0), 3)
        t_ref = max(t_ref, 20.0)
        if t_ref >= t0:
            t_ref = t0 - 0.5
    elif placement == 'first_knot':
        t_ref = t0
    elif placement == 'inside':
        i = rng.randrange(n - 1)
        t_ref = round(ts[i] + (ts[i + 1] - ts[i]) * rng.uniform(0.1, 0.9), 3)
        if t_ref in ts:
            t_ref = (ts[i] + ts[i + 1]) / 2.0
    elif placement == 'interior_knot':
        t_ref = ts[rng.randrange(1, n - 1)]
    elif placement == 'last_knot':
        t_ref = t1
    else:
        t_ref = round(t1 + rng.choice([0.5, 10.0, 200.0, 500.0]) *
                      rng.uniform(0.5, 1.0), 3)
    lo = min(t0, t_ref)
    hi = max(t1, t_ref)
    if range_class == 'wide':
        lo = round(max(lo - rng.choice([1.0, 50.0, 90.0]), 10.0), 3)
        hi = round(hi + rng.choice([1.0, 100.0, 1500.0]), 3)
    h = rng.choice([0.0, 1.0, -1.0, 1e-6, 1e4]) * rng.uniform(0.5, 40.0) \
        * rng.choice([1, -1])
    s = rng.choice([0.0, 1.0, 1e-6, 1e3]) * rng.uniform(0.5, 40.0) \
        * rng.choice([1, -1])
    idx = list(range(n))
    if order == 'reversed':
        idx.reverse()
    elif order == 'shuffled':
        while idx == sorted(idx) or idx == sorted(idx, reverse=True):
            rng.shuffle(idx)
    return {'Ts': ts, 'Cps': cps, 'H_ref': round(h, 9), 'S_ref': round(s, 9),
            'T_ref': t_ref, 'range': [lo, hi], 'perm': idx,
            'klass': [n, placement, range_class, order], 'shape': shape}


def ulp_up(x):
    return math.nextafter(x, math.inf)


def ulp_dn(x):
    return math.nextafter(x, -math.inf)


def probe_temperatures(rng, case, extra_random=6):
    """Evaluation temperatures inside the range: range ends, knots, knot +-
    ulp, T_ref, T_ref +- ulp, random interior, random in the continuations."""
    lo, hi = case['range']
    ts = sorted(case['Ts'])
    out = [lo, hi, case['T_ref'], ulp_up(case['T_ref']),
           ulp_dn(case['T_ref'])]
    for t in ts:
        out += [t, ulp_up(t), ulp_dn(t)]
    for a, b in zip(ts, ts[1:]):
        out.append((a + b) / 2.0)
    for _ in range(extra_random):
        out.append(rng.uniform(lo, hi))
    if lo < ts[0]:
        out.append(rng.uniform(lo, ts[0]))
    if hi > ts[-1]:
        out.append(rng.uniform(ts[-1], hi))
    seen = set()
    res = []
    for t in out:
        if lo <= t <= hi and t not in seen:
            seen.add(t)
            res.append(t)
    return res


# --------------------------------------------------------------------------
# the harness's own quadrature (never spline.integral / scipy.quad)
_GL = None


def gauss_legendre(n=20):
    global _GL
    if _GL is None or len(_GL[0]) != n:
        import numpy as np
        _GL = np.polynomial.legendre.leggauss(n)
    return _GL


def integrate_pieces(f, a, b, breaks, weight=None, max_ratio=1.3):
    """Integral of f (vectorised over a numpy array) from a to b (a <= b),
    split at `breaks` (where f is only piecewise smooth) and geometrically so
    that each sub-piece [u, v] has v/u <= max_ratio (keeps 1/T analytic well
    away from the Bernstein ellipse).  weight(T) multiplies f."""
    import numpy as np
    if a == b:
        return 0.0
    assert a < b
    pts = [a] + [x for x in sorted(set(breaks)) if a < x < b] + [b]
    xs, ws = gauss_legendre(20)
    total = []
    for u, v in zip(pts, pts[1:]):
        k = max(1, int(math.ceil(math.log(v / u) / math.log(max_ratio))))
        edges = [u * (v / u) ** (i / k) for i in range(k)] + [v]
        for p, q in zip(edges, edges[1:]):
            # stay strictly inside (p, q): the integrand may be discontinuous
            # in its derivatives at p and q but not inside
            t = 0.5 * (q - p) * xs + 0.5 * (q + p)
            t = np.clip(t, p, q)
            y = f(t)
            if weight is not None:
                y = y * weight(t)
            total.append(0.5 * (q - p) * float(np.dot(ws, y)))
    return math.fsum(total)
