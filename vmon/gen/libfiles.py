"""Writes synthetic library / scheme files with the harness's own YAML emitter.

Abstract group data (non-dimensional, the form the loader must arrive at):
    {'T_ref': K, 'H': H/(R T_ref) | None, 'S': S/R | None,
     'Cp': {T_K: Cp/R}, 'range': [lo, hi] | None}
Presentations (C12): 'nd' | 'default' (units: block + bare numbers) |
'explicit' (unit string on every value) | per-value mixtures.
"""
import os
import shutil
import tempfile
from decimal import Decimal

R_SI = 8.314472  # pgradd.Consts.GAS_CONSTANT, the constant the loader documents

MINIMAL_SCHEME = "patterns: []\n"


def num(x):
    """Positional decimal text of a float, never exponent notation, exact for
    the float's shortest repr."""
    if isinstance(x, int):
        return str(x)
    s = format(Decimal(repr(float(x))), 'f')
    return s


def q(name):
    return "'" + str(name).replace("'", "''") + "'"


class TempTree(object):
    """A temp directory removed on exit."""
    def __init__(self, prefix='vmon_lib_', stat_stable=False):
        """stat_stable: files keep their byte size (texts are padded with
        trailing blanks to a multiple of 512 bytes) and their time stamps
        when they are rewritten -- what `cp -p`, `rsync -t`, an archive
        extraction or an edit on a coarse-timestamp file system leaves."""
        self.path = tempfile.mkdtemp(prefix=prefix)
        self.stat_stable = stat_stable
        self.same_stat_rewrites = 0

    def write(self, rel, text):
        p = os.path.join(self.path, rel)
        os.makedirs(os.path.dirname(p), exist_ok=True)
        before = None
        if self.stat_stable:
            if not text.endswith('\n'):
                text += '\n'
            nbytes = len(text.encode('utf8'))
            text += ' ' * (-nbytes % 512)
            if os.path.exists(p):
                before = os.stat(p)
                with open(p) as f:
                    old = f.read()
        with open(p, 'w') as f:
            f.write(text)
        if before is not None:
            os.utime(p, ns=(before.st_atime_ns, before.st_mtime_ns))
            after = os.stat(p)
            if old != text and after.st_size == before.st_size and \
                    after.st_mtime_ns == before.st_mtime_ns:
                self.same_stat_rewrites += 1
        return p

    def __enter__(self):
        return self

    def __exit__(self, *a):
        shutil.rmtree(self.path, ignore_errors=True)
        return False


def render_thermochem(g, pres=None, indent=12):
    """pres: dict part -> ('nd',) | ('bare',) | ('unit', unit_text, factor)
    where factor = SI value of one `unit_text`; parts: T, H, S, Cp, range.
    Temperatures: ('unit', 'K', 1.0) / ('unit', 'mK', 1e-3) / ('bare',)."""
    pres = pres or {}
    pad = ' ' * indent
    lines = []

    def temp(T, how):
        if how[0] == 'bare':
            return num(T / how[1]) if len(how) > 1 else num(T)
        return '%s %s' % (num(T / how[2]), how[1])

    def bare(x):
        # spellings of a bare number that PyYAML hands over as TEXT
        t = num(x)
        st = pres.get('numeral')
        if st == 'quoted':
            return "'%s'" % t
        if st == 'nolead' and (t.startswith('0.') or t.startswith('-0.')):
            return t.replace('0.', '.', 1)
        return t

    tp = pres.get('T', ('unit', 'K', 1.0))
    if not (pres.get('omit_T_ref') and g['T_ref'] == 298.15):
        lines.append('%sT_ref: %s' % (pad, temp(g['T_ref'], tp)))
    if g.get('H') is not None:
        hp = pres.get('H', ('nd',))
        if hp[0] == 'nd':
            lines.append('%sND_H_ref: %s' % (pad, num(g['H'])))
        else:
            dim = g['H'] * R_SI * g['T_ref']  # J/mol
            if hp[0] == 'bare':
                lines.append('%sH_ref: %s' % (pad, bare(dim / hp[1])))
            else:
                lines.append('%sH_ref: %s %s' % (pad, num(dim / hp[2]),
                                                 hp[1]))
    if g.get('S') is not None:
        sp = pres.get('S', ('nd',))
        if sp[0] == 'nd':
            lines.append('%sND_S_ref: %s' % (pad, num(g['S'])))
        else:
            dim = g['S'] * R_SI
            if sp[0] == 'bare':
                lines.append('%sS_ref: %s' % (pad, bare(dim / sp[1])))
            else:
                lines.append('%sS_ref: %s %s' % (pad, num(dim / sp[2]),
                                                 sp[1]))
    if g.get('Cp'):
        cp = pres.get('Cp', ('nd',))
        key = 'ND_Cp_data' if cp[0] == 'nd' else 'Cp_data'
        lines.append('%s%s:' % (pad, key))
        for T in g.get('Cp_order') or sorted(g['Cp']):
            v = g['Cp'][T]
            if cp[0] == 'nd':
                vt = num(v)
            elif cp[0] == 'bare':
                vt = bare(v * R_SI / cp[1])
            else:
                vt = '%s %s' % (num(v * R_SI / cp[2]), cp[1])
            lines.append('%s    - [%s, %s]' % (pad, temp(T, tp), vt))
    if g.get('range') is not None:
        rp = pres.get('range', tp)
        lines.append('%srange: [%s, %s]' % (pad, temp(g['range'][0], rp),
                                            temp(g['range'][1], rp)))
    if not lines:     # an empty block would be YAML null, not a mapping
        lines.append('%sT_ref: %s' % (pad, temp(g['T_ref'], tp)))
    return '\n'.join(lines)


def render_library(groups=None, descriptors=None, units=None, include=None,
                   pres=None, uq=None, group_spelling=None):
    """groups/descriptors: name -> abstract data (or None for an entry without
    a thermochem set); pres: name -> presentation dict."""
    out = []
    if units:
        out.append('units:')
        for k, v in units.items():
            out.append('    %s: %s' % (k, v))
    if include:
        out.append('include:')
        for i in include:
            out.append('    - %s' % i)
    for key, table in (('groups', groups), ('other_descriptors', descriptors)):
        if not table:
            continue
        out.append('%s:' % key)
        for name, g in table.items():
            spelled = (group_spelling or {}).get(name, name)
            out.append('    %s:' % q(spelled))
            if g is None:
                out.append('        {}')
                continue
            out.append("        'thermochem':")
            out.append(render_thermochem(g, (pres or {}).get(name)))
    if uq:
        out.append('UQ:')
        out.append('    RMSE:')
        out.append("        'thermochem':")
        out.append(render_thermochem(uq['RMSE'], uq.get('pres'), indent=12))
        out.append('    DOF:')
        out.append('        %d' % uq['dof'])
        out.append('    InvCovMat:')
        out.append("        'mat':")
        rows = ['[' + ','.join(num(v) for v in row) + ']'
                for row in uq['mat']]
        out.append('           [' + ',\n            '.join(rows) + ']')
        out.append("        'groups':")
        out.append('           [' + ','.join(q(n) for n in uq['groups'])
                   + ']')
    if not out:
        out.append('include: []')     # an empty YAML document is not a library
    return '\n'.join(out) + '\n'


def write_library(tree, rel, text, scheme_text=MINIMAL_SCHEME):
    p = tree.write(rel, text)
    sp = os.path.join(os.path.dirname(p), 'scheme.yaml')
    if not os.path.exists(sp):
        with open(sp, 'w') as f:
            f.write(scheme_text)
    return p


def random_group(rng, with_cp=None, with_h=None, with_s=None, tref=None):
    """Abstract group data with random tables (C01, C06, C12, C20 ...)."""
    T_ref = tref if tref is not None else rng.choice([298.0, 298.15, 300.0])
    n = rng.choice([0, 1, 2, 3, 4, 7, 12]) if with_cp is None else (
        rng.choice([1, 2, 3, 5, 9]) if with_cp else 0)
    g = {'T_ref': T_ref, 'Cp': {}, 'range': None}
    if n:
        lo = rng.choice([100.0, 200.0, 300.0])
        step = rng.choice([50.0, 100.0, 200.0])
        for i in range(n):
            g['Cp'][lo + i * step] = round(rng.uniform(-2.0, 12.0), 4)
        ts = sorted(g['Cp'])
        a = min(ts[0], T_ref)
        b = max(ts[-1], T_ref)
        if rng.random() < 0.5:
            a = a - rng.choice([0.0, 10.0, 50.0])
            b = b + rng.choice([0.0, 100.0, 500.0])
        g['range'] = [a, b]
    elif rng.random() < 0.3:
        g['range'] = [T_ref - rng.choice([0.0, 50.0]),
                      T_ref + rng.choice([0.0, 200.0, 1000.0])]
    has_h = (rng.random() < 0.85) if with_h is None else with_h
    has_s = (rng.random() < 0.85) if with_s is None else with_s
    g['H'] = round(rng.choice([0.0, 1.0, 1.0, -1.0]) *
                   rng.uniform(0.1, 60.0), 5) if has_h else None
    g['S'] = round(rng.choice([0.0, 1.0, 1.0, -1.0]) *
                   rng.uniform(0.1, 30.0), 5) if has_s else None
    return g
