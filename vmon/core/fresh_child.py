"""Fresh-interpreter reference for C15: computes atomic results
(load -> decompose -> estimate -> evaluate) for the keys given on stdin.

Input  (JSON on stdin): {"keys": [[lib, smiles, [[prop, T, s_el], ...]], ...],
                         "digests": [lib, ...]}
Output (JSON after @@REPORT@@): {"values": {...}, "descriptors": {...},
                                 "digests": {...}}
Every (lib, smiles) gets its own freshly loaded library object and every
value its own fresh Estimate object.
"""
import json
import os
import sys

ROOT = os.path.dirname(os.path.dirname(os.path.dirname(os.path.abspath(
    __file__))))
sys.path.insert(0, ROOT)


def main():
    req = json.load(sys.stdin)
    from rdkit import RDLogger
    RDLogger.DisableLog('rdApp.*')
    from vmon.core import libs, digests
    from vmon.core.obs import observe
    out = {'values': {}, 'descriptors': {}, 'digests': {}}

    def arg_of(key):
        # 'mol:<smiles>' / 'molH:<smiles>': the molecule handed over as an
        # RDKit object (without / with explicit hydrogens)
        from rdkit import Chem
        if key.startswith('mol:'):
            return Chem.MolFromSmiles(key[4:])
        if key.startswith('molH:'):
            return Chem.AddHs(Chem.MolFromSmiles(key[5:]))
        return key
    for lib_name, smi, evals in req.get('keys', []):
        lib = libs.fresh(lib_name)
        d = observe(lib.GetDescriptors, arg_of(smi))
        k = '%s|%s' % (lib_name, smi)
        if 'exc' in d:
            out['descriptors'][k] = {'exc': d['exc']}
            continue
        out['descriptors'][k] = {'ok': {str(a): float(b) for a, b in
                                        dict(d['ok']).items()}}
        for prop, T, s_el in evals:
            lib2 = libs.fresh(lib_name) if req.get('strict') else lib
            dd = lib2.GetDescriptors(arg_of(smi)) if req.get('strict') \
                else d['ok']
            e = observe(lib2.Estimate, dd, 'thermochem')
            kk = '%s|%s|%s|%r|%r' % (lib_name, smi, prop, T, s_el)
            if 'exc' in e:
                out['values'][kk] = {'exc': e['exc']}
                continue
            kw = {'S_elements': True} if s_el else {}
            v = observe(getattr(e['ok'], prop), T, **kw)
            out['values'][kk] = {'exc': v['exc']} if 'exc' in v else \
                {'ok': float(v['ok'])}
    for lib_name in req.get('digests', []):
        out['digests'][lib_name] = digests.library_digest(libs.fresh(lib_name))
    sys.stdout.write('\n@@REPORT@@' + json.dumps(out) + '\n')


if __name__ == '__main__':
    main()
