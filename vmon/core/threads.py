"""Schedule stress: the concurrent outcome must equal the sequential one.

A property that holds "for every schedule" is decided here the way the other
monitors decide "for every input": the real calls are driven from several
threads at once (tiny switch interval, barrier start, every thread running
every job in a different rotation so that the SAME objects meet their first
use concurrently), and the oracle is the outcome the very same job gave when
it ran alone.  An outcome is ('ok', canonical text) or ('exc', class, text).

make_jobs() -> list of (key, thunk).  It is called once for the sequential
baseline and once per concurrent round, so every round gets objects no thread
has touched yet (lazily filled tables, caches).  thunk() returns a canonical
text.  Nothing here knows about pgradd.

The schedule is the interpreter's: it is not reproducible, so a replay re-runs
the stress (same jobs, more rounds) rather than a recorded interleaving, and a
clean run says "held on the interleavings that occurred": the evidence counts
how many job executions actually overlapped another thread's.
"""
import sys
import threading
import time


def outcome(thunk):
    try:
        return ('ok', thunk())
    except BaseException as exc:  # noqa: BLE001 - the outcome IS the datum
        try:
            msg = str(exc)
        except BaseException as exc2:  # noqa: BLE001
            msg = '<str() raised %s>' % type(exc2).__name__
        return ('exc', type(exc).__name__, msg[:300])


def stress(make_jobs, nthreads=4, rounds=3, switch=1e-6, watchdog=120.0,
           same_exc_text=True):
    """Returns dict(baseline=..., mismatches=[...], compared=n, overlapped=n,
    unstable=[keys], hung=bool)."""
    base_jobs = make_jobs()
    baseline = dict((k, outcome(t)) for k, t in base_jobs)
    # a job whose sequential outcome is not repeatable cannot be an oracle
    again = dict((k, outcome(t)) for k, t in make_jobs())
    unstable = [k for k in baseline if baseline[k] != again.get(k)]
    res = {'baseline': baseline, 'mismatches': [], 'compared': 0,
           'overlapped': 0, 'unstable': unstable, 'hung': False,
           'rounds': 0}
    old = sys.getswitchinterval()
    sys.setswitchinterval(switch)
    try:
        for rnd in range(rounds):
            jobs = make_jobs()
            n = len(jobs)
            if not n:
                break
            got = [dict() for _ in range(nthreads)]
            spans = [list() for _ in range(nthreads)]
            barrier = threading.Barrier(nthreads)

            def work(tid):
                try:
                    barrier.wait(timeout=30)
                except threading.BrokenBarrierError:
                    return
                # even rounds: every thread walks the jobs in the SAME order
                # (each object's first use is contended); odd rounds: rotated
                # and, for every other thread, reversed
                off = tid * (n // nthreads + 1) if rnd % 2 else 0
                order = [(j + off + rnd) % n for j in range(n)]
                if tid % 2 and rnd % 4 == 3:
                    order.reverse()
                for j in order:
                    k, t = jobs[j]
                    t0 = time.perf_counter()
                    got[tid][k] = outcome(t)
                    spans[tid].append((t0, time.perf_counter()))

            ths = [threading.Thread(target=work, args=(i,), daemon=True)
                   for i in range(nthreads)]
            for t in ths:
                t.start()
            deadline = time.time() + watchdog
            for t in ths:
                t.join(max(0.1, deadline - time.time()))
            if any(t.is_alive() for t in ths):
                res['hung'] = True
                break
            res['rounds'] += 1
            for tid in range(nthreads):
                for k, o in got[tid].items():
                    if k in unstable:
                        continue
                    res['compared'] += 1
                    want = baseline[k]
                    same = (o == want) if same_exc_text or o[0] == 'ok' \
                        else (o[:2] == want[:2])
                    if not same:
                        res['mismatches'].append(
                            {'key': k, 'thread': tid, 'round': rnd,
                             'alone': want, 'concurrent': o})
            # how many executions overlapped one of another thread
            allspans = sorted((a, b, tid) for tid in range(nthreads)
                              for a, b in spans[tid])
            active_end = {}
            for a, b, tid in allspans:
                if any(e > a for t2, e in active_end.items() if t2 != tid):
                    res['overlapped'] += 1
                active_end[tid] = max(b, active_end.get(tid, 0.0))
    finally:
        sys.setswitchinterval(old)
    return res


def judge(ctx, res, what, case, min_overlap=1):
    """Turn a stress() result into counters / a violation on ctx.
    Returns True if the comparison was decided (held or violated)."""
    ctx.evals(res['compared'])
    if res['unstable']:
        ctx.skip('job not repeatable even single-threaded (no oracle): %s'
                 % what, len(res['unstable']))
    if res['hung']:
        # a wall-clock watchdog is never a verdict (the machine may simply be
        # loaded): the run is INCONCLUSIVE for this axis (vmon.run reads the
        # counter)
        ctx.count('thread_stress_watchdog_fired')
        ctx.skip('thread stress watchdog fired after %d rounds: %s' % (
            res['rounds'], what))
        return False
    if res['mismatches']:
        ctx.violation('%s: outcome under concurrent use differs from the '
                      'outcome alone' % what, case,
                      {'n_mismatches': len(res['mismatches']),
                       'examples': res['mismatches'][:4]})
        return True
    if res['overlapped'] < min_overlap or not res['compared']:
        ctx.skip('thread stress produced no overlapping executions: %s'
                 % what)
        return False
    ctx.count('outcomes_compared_under_thread_stress', res['compared'])
    ctx.count('executions_overlapping_another_thread', res['overlapped'])
    ctx.klass('thread stress: ' + what)
    return True


# ------------------------------------------------------------------ hand-off
_POOL = {}


def in_worker(fn, *a, **kw):
    """Run fn(*a, **kw) in this process's single long-lived worker thread and
    wait for it (a reused pool of one): strictly sequential in time, another
    thread in identity.  What a multi-step protocol remembers between its
    steps must not depend on which thread ran which step."""
    if 'pool' not in _POOL:
        from concurrent.futures import ThreadPoolExecutor
        _POOL['pool'] = ThreadPoolExecutor(max_workers=1,
                                           thread_name_prefix='vmon-handoff')
    return _POOL['pool'].submit(fn, *a, **kw).result()
