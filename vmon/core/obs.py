"""Observation helpers shared by the property monitors."""
import math
import os
import warnings

import numpy as np


class StepBudgetExceeded(BaseException):
    """Raised by the step-budget monitor; derives from BaseException so that
    no `except Exception` inside the library can swallow it."""


WARNINGS_AS_ERRORS = os.environ.get('VMON_WARNINGS') == 'error'
STATS = {'calls_under_error_filter': 0, 'warnings_that_escaped': 0}


def observe(fn, *args, **kw):
    """Run fn and return a JSON-able observation:
       {'ok': value, 'warn': [category names]} or
       {'exc': type name, 'msg': str, 'warn': [...]}.

    In the warnings-as-errors configuration (vmon.run VARIANTS) the call is
    made with the filter `error` in force.  A warning that escapes to the
    caller is the caller's to see, and is no datum for any property: the call
    is then repeated the ordinary way.  A warning that is raised and caught
    inside the library, changing what it returns, comes back as an ordinary
    observation and is judged by the ordinary oracle."""
    if WARNINGS_AS_ERRORS:
        STATS['calls_under_error_filter'] += 1
        with warnings.catch_warnings():
            warnings.simplefilter('error')
            try:
                return {'ok': fn(*args, **kw), 'warn': []}
            except StepBudgetExceeded:
                raise
            except Warning:
                STATS['warnings_that_escaped'] += 1
            except Exception as exc:  # noqa
                try:
                    msg = str(exc)
                except Exception as e2:
                    msg = '<str() failed: %s>' % type(e2).__name__
                return {'exc': type(exc).__name__, 'msg': msg[:300],
                        'obj': exc, 'warn': []}
    with warnings.catch_warnings(record=True) as w:
        warnings.simplefilter('always')
        try:
            v = fn(*args, **kw)
            out = {'ok': v}
        except StepBudgetExceeded:
            raise
        except Exception as exc:  # noqa
            try:
                msg = str(exc)
            except Exception as e2:  # str() itself broken
                msg = '<str() failed: %s>' % type(e2).__name__
            out = {'exc': type(exc).__name__, 'msg': msg[:300], 'obj': exc}
    out['warn'] = sorted(set(x.category.__name__ for x in w))
    return out


def is_plain_number(x):
    """A plain real number: Python/numpy int or float, not a Quantity, not an
    array, not a bool."""
    if isinstance(x, bool):
        return False
    return isinstance(x, (int, float, np.floating, np.integer))


def is_finite_plain(x):
    return is_plain_number(x) and math.isfinite(float(x))


def close(a, b, rel=1e-9, abs_=1e-12, scale=None):
    a = float(a)
    b = float(b)
    if a == b:
        return True
    if not (math.isfinite(a) and math.isfinite(b)):
        return False
    s = scale if scale is not None else max(abs(a), abs(b))
    return abs(a - b) <= rel * s + abs_


def short(x, n=160):
    s = repr(x)
    return s if len(s) <= n else s[:n] + '...'
