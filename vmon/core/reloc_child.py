"""Child process of C14/C15: loads shipped libraries by name (under whatever
pgradd_DATA_DIR the parent set), records every file opened (audit hook) and
prints a JSON report {lib: digest}, opened files."""
import json
import os
import sys

ROOT = os.path.dirname(os.path.dirname(os.path.dirname(os.path.abspath(
    __file__))))
sys.path.insert(0, ROOT)

opened = []


def hook(event, args):
    if event == 'open' and args and isinstance(args[0], (str, bytes)):
        p = args[0]
        if isinstance(p, bytes):
            p = p.decode('utf8', 'replace')
        if p.endswith(('.yaml', '.yml')):
            try:
                opened.append(os.path.abspath(p))
            except OSError:          # no working directory any more
                opened.append(p)


def main():
    names = sys.argv[1:]
    cwd_gone = False
    if os.environ.pop('VMON_DELETE_CWD', None):
        try:
            os.rmdir(os.getcwd())
            try:
                os.getcwd()
            except OSError:
                cwd_gone = True
        except OSError:
            pass
    sys.addaudithook(hook)
    late = os.environ.pop('VMON_LATE_DATA_DIR', None)
    if late:
        # the override is set only AFTER the package has been imported (a
        # program that configures itself at start-up), before the first load
        import pgradd.ThermoChem  # noqa
        import pgradd.GroupAdd.Library  # noqa
        import pgradd.GroupAdd.Scheme  # noqa
        os.environ['pgradd_DATA_DIR'] = late
    from vmon.core import libs, digests
    out = {}
    for n in names:
        try:
            lib = libs.fresh(n)
            out[n] = digests.library_digest(lib)
        except Exception as exc:
            out[n] = 'ERROR %s: %s' % (type(exc).__name__, exc)
    by_path = {}
    if os.environ.get('VMON_ALSO_BY_PATH'):
        for n in names:
            try:
                by_path[n] = digests.library_digest(libs.fresh(os.path.join(
                    os.environ['pgradd_DATA_DIR'], n, 'library.yaml')))
            except Exception as exc:
                by_path[n] = 'ERROR %s: %s' % (type(exc).__name__, exc)
    schemes = {}
    from pgradd.GroupAdd.Scheme import GroupAdditivityScheme
    for n in names:
        try:
            schemes[n] = digests.digest_of(digests.scheme_state(
                GroupAdditivityScheme.Load(n)))
        except Exception as exc:
            schemes[n] = 'ERROR %s: %s' % (type(exc).__name__, exc)
    import pgradd
    sys.stdout.write('\n@@REPORT@@' + json.dumps({
        'digests': out, 'scheme_digests': schemes,
        'digests_by_path': by_path, 'cwd_gone': cwd_gone,
        'opened': sorted(set(opened)),
        'pgradd_file': pgradd.__file__,
        'env': os.environ.get('pgradd_DATA_DIR')}) + '\n')


if __name__ == '__main__':
    main()
