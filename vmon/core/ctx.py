"""Shard context: what a property workload records while it runs.

Everything the offline merger needs is kept here and dumped as JSON by the
shard process: counters, distinct non-trivial case digests, samples,
discrepancies (with a replayable case description) and monitor counters.
"""
import hashlib
import json
import random
import collections


def digest(obj):
    s = obj if isinstance(obj, str) else json.dumps(obj, sort_keys=True,
                                                    default=repr)
    return hashlib.blake2b(s.encode('utf8', 'replace'),
                           digest_size=8).hexdigest()


def jsonable(x, depth=0):
    """Best-effort conversion of observed values to JSON."""
    import numpy as np
    if depth > 60:
        return repr(x)
    if x is None or isinstance(x, (bool, int, str)):
        return x
    if isinstance(x, float):
        if x != x or x in (float('inf'), float('-inf')):
            return repr(x)
        return x
    if isinstance(x, (np.floating,)):
        return jsonable(float(x), depth)
    if isinstance(x, (np.integer,)):
        return int(x)
    if isinstance(x, np.ndarray):
        return [jsonable(v, depth + 1) for v in x.tolist()]
    if isinstance(x, dict):
        return {str(k): jsonable(v, depth + 1) for k, v in x.items()}
    if isinstance(x, (list, tuple, set, frozenset)):
        return [jsonable(v, depth + 1) for v in x]
    return repr(x)


class Ctx(object):
    MAX_SAMPLES = 6
    MAX_PER_SIG = 3

    def __init__(self, prop, tier, seed, shard, nshards):
        self.prop = prop
        self.tier = tier
        self.seed = seed
        self.shard = shard
        self.nshards = nshards
        self.rng = random.Random('%s:%s:%s:%s' % (prop, tier, seed, shard))
        self.counters = collections.Counter()
        self.distinct = set()
        self.samples = []
        self.violations = []
        self.sig_counts = collections.Counter()
        self.skipped = collections.Counter()
        self.classes = collections.Counter()
        self.maxima = {}
        self.notes = {}

    # -- partitioning -----------------------------------------------------
    def mine(self, i):
        return i % self.nshards == self.shard

    def sub_rng(self, *key):
        return random.Random('%s:%s:%s' % (self.prop, self.seed,
                                           ':'.join(str(k) for k in key)))

    # -- recording --------------------------------------------------------
    def count(self, name, n=1):
        self.counters[name] += n

    def evals(self, n=1):
        self.counters['evaluations'] += n

    def nontrivial(self, key):
        """Register a distinct non-trivial case (one that reached the deciding
        comparison)."""
        self.distinct.add(digest(key))

    def klass(self, name, n=1):
        self.classes[name] += n

    def skip(self, reason, n=1):
        self.skipped[reason] += n

    def maximum(self, name, v):
        if name not in self.maxima or v > self.maxima[name]:
            self.maxima[name] = v

    def sample(self, obj, force=False):
        if len(self.samples) < self.MAX_SAMPLES or force:
            self.samples.append(jsonable(obj))

    def violation(self, sig, case, detail):
        """sig: short mechanism-level signature (used for de-duplication and
        by classifiers); case: JSON-able description sufficient to replay;
        detail: observed vs expected."""
        self.sig_counts[sig] += 1
        if self.sig_counts[sig] <= self.MAX_PER_SIG:
            self.violations.append({'sig': sig, 'case': jsonable(case),
                                    'detail': jsonable(detail)})

    # -- serialisation ----------------------------------------------------
    def dump(self):
        return {
            'prop': self.prop, 'tier': self.tier, 'seed': self.seed,
            'shard': self.shard, 'nshards': self.nshards,
            'counters': dict(self.counters),
            'distinct': sorted(self.distinct),
            'samples': self.samples,
            'violations': self.violations,
            'sig_counts': dict(self.sig_counts),
            'skipped': dict(self.skipped),
            'classes': dict(self.classes),
            'maxima': self.maxima,
            'notes': self.notes,
        }
