"""Access to the shipped libraries of the repository under test."""
import contextlib
import io
import os

LIBS = ['BensonGA', 'GRWAqueous2018', 'GRWSurface2018', 'GuSolventGA2017Aq',
        'GuSolventGA2017Vac', 'PPY', 'PtSurface2023', 'SalciccioliGA2012',
        'XieGA2022']
UQ_LIBS = ['GRWAqueous2018', 'GRWSurface2018', 'GuSolventGA2017Vac']
METAL = {'XieGA2022': 'Ru'}

_cache = {}


def data_dir():
    import pgradd
    return os.path.join(os.path.dirname(pgradd.__file__), 'data')


def fresh(name):
    """A new GroupLibrary object for a shipped library (or a path)."""
    import pgradd.ThermoChem  # noqa: registers the property set
    from pgradd.GroupAdd.Library import GroupLibrary
    if os.environ.get('VMON_STDOUT') == 'closed':
        # the closed-stdout configuration: the loader sees it as it is
        return GroupLibrary.Load(name)
    with contextlib.redirect_stdout(io.StringIO()):
        return GroupLibrary.Load(name)


def get(name):
    if name not in _cache:
        _cache[name] = fresh(name)
    return _cache[name]


def scheme_yaml(name):
    import yaml
    with open(os.path.join(data_dir(), name, 'scheme.yaml')) as f:
        return yaml.safe_load(f)
