"""Deep state digests of library objects (C14, C15)."""
import hashlib
import json

import numpy as np


def _num(x):
    if x is None:
        return None
    try:
        return repr(float(x))
    except Exception:
        return 'NONNUM:' + repr(x)


def correlation_fields(c):
    r = c.get_range()
    return {
        'type': type(c).__name__,
        'H': _num(c.ND_H_ref), 'S': _num(c.ND_S_ref),
        'T_ref': _num(c.T_ref),
        'Cp': sorted((_num(t), _num(v))
                     for t, v in (c.ND_Cp_data or {}).items()),
        'range': None if r is None else [_num(r[0]), _num(r[1])],
    }


def library_state(lib):
    out = {'groups': {}, 'uq': None, 'scheme': None}
    for g in lib:
        ent = lib[g]
        sets = {}
        for name in ent:
            obj = ent[name]
            sets[name] = correlation_fields(obj) if hasattr(
                obj, 'ND_Cp_data') else repr(obj)
        out['groups'][str(g)] = [type(g).__name__, sets]
    uq = getattr(lib, 'uq_contents', None)
    if uq:
        out['uq'] = {
            'descriptors': [str(d) for d in uq['descriptors']],
            'mat': hashlib.sha1(np.ascontiguousarray(
                np.asarray(uq['mat'], dtype=float)).tobytes()).hexdigest(),
            'dof': repr(uq['dof']),
            'RMSE': correlation_fields(uq['RMSE'].thermochem),
        }
    sch = getattr(lib, 'scheme', None)
    if sch is not None:
        out['scheme'] = scheme_state(sch)
    return out


def scheme_state(sch):
    def pat(p):
        d = dict(p)
        for k in ('connectivity', 'smarts', 'smiles'):
            if k in d:
                q = d[k]
                d[k] = [type(q).__name__, getattr(q, 'name', None),
                        len(getattr(q, 'atom_names', []) or []),
                        repr(q) if hasattr(q, 'atom_names') else '']
        return sorted((str(k), repr(v)) for k, v in d.items())
    return {
        'patterns': [pat(p) for p in sch.patterns],
        'other_descriptors': [pat(p) for p in sch.other_descriptors],
        'remaps': sorted((str(k), repr(v)) for k, v in sch.remaps.items()),
        'n_smiles': len(sch.smiles_based_descriptors),
        'n_smarts': len(sch.smarts_based_descriptors),
        'n_pretreatment': len(sch.pretreatment_rules),
    }


def digest_of(state):
    return hashlib.sha1(json.dumps(state, sort_keys=True,
                                   default=repr).encode()).hexdigest()


def library_digest(lib):
    return digest_of(library_state(lib))
