"""Clone agreement: a copy of an object behaves like the object.

copy.copy, copy.deepcopy and a pickle round trip are part of how Python users
move library objects around (into worker processes, into caches, next to a
modified twin).  None of the properties mentions them, so what a property
says about an object it says about that object's clones: the same calls on a
clone give the same outcome -- the same value (compared by repr) or the same
exception class.

A way of cloning that fails on an object is skipped and counted (several
library objects hold RDKit query atoms, which cannot be pickled): that is not
a datum for any property.  The clones are made BEFORE the original is asked
(so lazily built state is built separately in each) for half of the objects
and AFTER for the other half (so state built by the calls travels with the
clone); the caller passes `when`.
"""
import copy
import pickle

from vmon.core.threads import outcome

WAYS = [('copy.copy', copy.copy), ('copy.deepcopy', copy.deepcopy),
        ('pickle round trip', lambda o: pickle.loads(pickle.dumps(o))),
        ('pickle protocol 2 round trip',
         lambda o: pickle.loads(pickle.dumps(o, protocol=2)))]


def make(obj):
    out, failed = [], []
    ways = list(WAYS)
    if callable(getattr(obj, 'copy', None)):
        ways.append(('its own copy() method', lambda o: o.copy()))
    for label, fn in ways:
        try:
            out.append((label, fn(obj)))
        except BaseException as exc:  # noqa: BLE001
            failed.append((label, type(exc).__name__))
    return out, failed


def agreement(ctx, case, obj, calls, what, when='before', class_only=()):
    """calls: [(label, fn(o) -> canonical text)].  Returns number compared."""
    cl = []
    if when == 'before':
        cl, failed = make(obj)
    base = [(lab, outcome(lambda fn=fn: fn(obj))) for lab, fn in calls]
    if when != 'before':
        cl, failed = make(obj)
    for label, why in failed:
        ctx.skip('%s of a %s not possible (%s)' % (label, what, why))
    n = 0
    for label, c in cl:
        for (lab, want), (_, fn) in zip(base, calls):
            got = outcome(lambda fn=fn: fn(c))
            n += 1
            same = got[:2] == want[:2] if want[0] == 'exc' else got == want
            if not same:
                ctx.violation('a %s of a %s does not behave like the '
                              'original (made %s the original was first '
                              'used)' % (label, what, when),
                              case, {'call': lab, 'original': want,
                                     'clone': got})
                return n
    if n:
        ctx.evals(n)
        ctx.count('calls_compared_between_an_object_and_its_clones', n)
        ctx.klass('clones of a %s made %s first use' % (what, when))
    return n
