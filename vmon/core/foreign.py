"""Work in every other part of the package ("foreign work").

Used (a) as steps inside C15's histories and (b) by every odd-numbered shard
of every check BEFORE its workload starts (vmon.shard: the process has a
past).  What the calls return is other properties' business; here they only
have to have happened: nothing that follows may notice.
"""
FOREIGN = ['network from a RING rule', 'network from reaction SMARTS',
           'RING fragment read and matched', 'RING rule read and run',
           'unit expressions', 'correlation formatted and read back',
           'group names parsed']


def foreign_work(what):
    from rdkit import Chem as _Chem
    if what == 'network from a RING rule':
        from pgradd.RDkitWrapper.GenRxnNet import GenerateRxnNet
        return len(GenerateRxnNet(['CCO'], [
            'rule cc{reactant r1{C? labeled c1 C? labeled c2 single bond to '
            'c1} break bond (c1,c2) increase number of radical (c1) increase '
            'number of radical (c2)}']))
    if what == 'network from reaction SMARTS':
        from pgradd.RDkitWrapper.GenRxnNet import GenerateRxnNet
        return len(GenerateRxnNet(['CC'], ['[C:1][H:2]>>[C:1].[H:2]']))
    if what == 'RING fragment read and matched':
        from pgradd.RINGParser import Read
        q = Read('fragment a{C labeled c1 C labeled c2 single bond to c1 '
                 'O labeled o1 single bond to c2}')
        return len(q.GetQueryMatches(_Chem.AddHs(_Chem.MolFromSmiles(
            'CC(O)CO'))))
    if what == 'RING rule read and run':
        from pgradd.RINGParser import Read
        q = Read('rule oh{reactant r1{O? labeled o1 H labeled h1 single '
                 'bond to o1} break bond (o1,h1) increase number of radical '
                 '(o1) increase number of radical (h1)}')
        return len(q.RunReactants(_Chem.MolFromSmiles('OCCO')))
    if what == 'unit expressions':
        from pgradd.Units import eval_qty
        return [float((eval_qty(t) / eval_qty(u)))
                for t, u in (('3 kcal/mol', 'J/mol'), ('2 atm', 'Pa'),
                             ('5 cm^3', 'm^3'))]
    if what == 'correlation formatted and read back':
        from pgradd.ThermoChem import ThermochemGroup
        from pgradd import yaml_io
        c = ThermochemGroup(-5.0, 12.0, {300.0: 3.0, 500.0: 4.5, 800.0: 6.0},
                            298.15, (250.0, 1000.0))
        doc = '!ThermochemGroup\n' + c.yaml_format(
            {'molar enthalpy': 'kJ/mol', 'temperature': 'kK'}) + '\n'
        return yaml_io.load(yaml_io.parse(doc)).get_HoRT(400.0)
    from pgradd.GroupAdd.Group import Group
    return [str(Group.parse(None, t)) for t in ('C(H)3(C)', 'O(H)(C)',
                                                'C(C)2(H)2')]


def tour():
    """Every kind of foreign work once; returns how many raised."""
    failed = 0
    for what in FOREIGN:
        try:
            foreign_work(what)
        except Exception:
            failed += 1
    return failed
