"""vmon.run -- parent process of a check.

    python -m vmon.run C05 [--tier quick|thorough] [--replay PATH]
                           [--shards N] [--inproc]

Splits the workload of a property into shards, runs every shard as its own
subprocess (a native crash or hang of one cannot take the monitor down),
merges the shard logs offline, classifies discrepancies against
known_findings.json, writes evidence/<ID>.json and prints the verdict lines.
"""
import argparse
import concurrent.futures
import importlib
import json
import os
import subprocess
import sys
import tempfile
import time

ROOT = os.path.dirname(os.path.dirname(os.path.abspath(__file__)))
EXIT_OK, EXIT_VIOLATION, EXIT_INCONCLUSIVE = 0, 1, 2


def ensure_deps():
    """A fresh restore has only committed files: install icontract/deal from
    the offline wheelhouse into the git-ignored .deps if it is missing."""
    deps = os.path.join(ROOT, '.deps')
    if os.path.isdir(os.path.join(deps, 'icontract')):
        return True
    wheels = '/opt/veriftools/wheels'
    if not os.path.isdir(wheels):
        return False
    try:
        subprocess.run(
            [sys.executable, '-m', 'pip', 'install', '--quiet', '--no-index',
             '--find-links', wheels, '--target', deps + '.tmp%d' % os.getpid(),
             'icontract', 'deal'],
            check=True, stdout=subprocess.DEVNULL, stderr=subprocess.DEVNULL,
            timeout=300)
        try:
            os.rename(deps + '.tmp%d' % os.getpid(), deps)
        except OSError:
            import shutil
            shutil.rmtree(deps + '.tmp%d' % os.getpid(), ignore_errors=True)
        return os.path.isdir(os.path.join(deps, 'icontract'))
    except Exception:
        return False


def load_known():
    path = os.path.join(ROOT, 'known_findings.json')
    try:
        with open(path) as f:
            return json.load(f).get('findings', [])
    except FileNotFoundError:
        return []


def repo_head():
    try:
        out = subprocess.run(['git', '-C', '/repo', 'rev-parse', 'HEAD'],
                             capture_output=True, text=True, timeout=20)
        dirty = subprocess.run(['git', '-C', '/repo', 'status', '--porcelain',
                                '--untracked-files=no'],
                               capture_output=True, text=True, timeout=20)
        return out.stdout.strip() + ('+dirty' if dirty.stdout.strip() else '')
    except Exception:
        return 'unknown'


# Interpreter configurations a user may legitimately run the library under.
# The properties do not mention them, so they must hold under each: a slice of
# every workload is repeated in a process configured that way, judged by the
# same oracles.  'optimised': python -O / PYTHONOPTIMIZE=1 (assert statements
# and `if __debug__` blocks are compiled away, in the library AND -- which is
# why no verdict of this harness is an assert statement -- in vmon).
# 'warnings-as-errors': the filter `error` (python -W error, pytest
# filterwarnings=error) is in force around every observed call; a warning that
# escapes to the caller is visible and the call is repeated without the
# filter, one that is swallowed inside the library and changes the answer is
# caught by the ordinary oracle.
# 'application-settings': process-wide settings an application around the
# library may have made.  Both shards: the root logger (hence every logger of
# the library) enabled down to DEBUG, as after logging.basicConfig(level=
# logging.DEBUG) -- code behind `logger.isEnabledFor(DEBUG)` runs.  The second
# shard also: the decimal context at 3 digits (decimal.getcontext().prec = 3,
# DefaultContext too), numpy print precision 3, and sys.stdout CLOSED (a
# daemon, a GUI program): whatever the library prints must not decide what it
# returns.
VARIANTS = [('optimised', [{'PYTHONOPTIMIZE': '1'}, {'PYTHONOPTIMIZE': '2'}]),
            ('warnings-as-errors', [{'VMON_WARNINGS': 'error'}]),
            ('application-settings', [
                {'VMON_LOGGING': 'debug'},
                {'VMON_LOGGING': 'debug', 'VMON_DECIMAL_PREC': '3',
                 'VMON_NUMPY_PRINT': '3', 'VMON_STDOUT': 'closed'}])]
# ('optimised' alternates -O and -OO: the second also strips docstrings.)
# Every variant shard additionally runs under its own string-hash seed (the
# ordinary shards all run under PYTHONHASHSEED=0 so that cases are
# reproducible by key): nothing may depend on set / dict-of-str order.
VARIANT_KEYS = ('PYTHONOPTIMIZE', 'VMON_WARNINGS', 'VMON_LOGGING',
                'VMON_DECIMAL_PREC', 'VMON_NUMPY_PRINT', 'VMON_STDOUT',
                'RDK_USE_LEGACY_STEREO_PERCEPTION')
# A check may add variants of its own (CONFIG['extra_variants']) where a
# third-party switch is in the property's way and the unchanged library
# supports it.  C03 / C04: RDKit's new stereo perception
# (RDK_USE_LEGACY_STEREO_PERCEPTION=0), under which double-bond stereo is
# labelled CIS / TRANS instead of Z / E -- the relational oracles of those
# two checks (one molecule, several spellings) do not care which; the
# reference-based checks are not run there (the library itself does not
# claim its cis corrections under that switch).


def all_variants(conf):
    return list(VARIANTS) + [tuple(v) for v in conf.get('extra_variants', [])]


def variant_env(name, j=0, seed=0, shard=0, variants=None):
    for vi, (n, envs) in enumerate(variants or VARIANTS):
        if n == name:
            env = dict(envs[j % len(envs)])
            env['PYTHONHASHSEED'] = str(1 + (seed * 31 + shard * 7 + vi)
                                        % 4000000000)
            return env
    return {}


def technique_of(mod):
    """The deciding method as registered in MANIFEST.json and written into
    every evidence file."""
    t = getattr(mod, 'TECHNIQUE', 'runtime monitoring')
    conf = getattr(mod, 'CONFIG', {})
    names = [n for n, _ in all_variants(conf)
             if n not in conf.get('no_variants', ())]
    if names:
        t += ('; a rotating slice of the workload is repeated in a process '
              'configured as: %s (optimised = -O and -OO; each under its '
              'own string-hash seed; same oracles)' % ', '.join(names))
    if hasattr(mod, 'check_threads'):
        t += ('; schedule stress on part of the shards: the outcome of each '
              'call made from several threads at once must equal the '
              'outcome of the same call made alone')
    return t


def run_one_shard(prop, tier, seed, shard, nshards, timeout, outdir,
                  variant=None, vj=0, variants=None):
    out = os.path.join(outdir, 'shard%03d%s.json' % (shard, variant or ''))
    cmd = [sys.executable, '-X', 'faulthandler', '-W', 'ignore', '-m',
           'vmon.shard', prop, tier, str(seed), str(shard), str(nshards), out]
    env = dict(os.environ)
    for k in VARIANT_KEYS:
        env.pop(k, None)
    venv = variant_env(variant, vj, seed, shard, variants) if variant \
        else {}
    env.update(venv)
    t0 = time.time()
    try:
        p = subprocess.run(cmd, cwd=ROOT, capture_output=True, text=True,
                           timeout=timeout, errors='replace', env=env)
        rc, err = p.returncode, p.stderr[-4000:]
    except subprocess.TimeoutExpired as exc:
        rc = 'timeout'
        err = (exc.stderr or b'')[-2000:]
        if isinstance(err, bytes):
            err = err.decode('utf8', 'replace')
    res = None
    if os.path.exists(out):
        try:
            with open(out) as f:
                res = json.load(f)
        except Exception:
            res = None
    if res:
        for v in res.get('violations', []):
            v['toured'] = bool(res.get('counters', {}).get(
                'shards_started_after_a_tour_of_the_package'))
    if res and variant:
        for v in res.get('violations', []):
            v['variant'] = variant
            v['variant_env'] = venv
    return {'shard': shard, 'rc': rc, 'stderr': err, 'result': res,
            'wall': time.time() - t0, 'variant': variant}


def merge(results):
    import collections
    m = {'counters': collections.Counter(), 'distinct': set(), 'samples': [],
         'violations': [], 'sig_counts': collections.Counter(),
         'skipped': collections.Counter(), 'classes': collections.Counter(),
         'maxima': {}, 'notes': {}, 'anchors_entered': set(),
         'anchors_missed': None, 'anchors_unresolved': set(),
         'monitor_evaluations': collections.Counter()}
    for r in results:
        res = r['result']
        if not res:
            continue
        m['counters'].update(res['counters'])
        m['distinct'].update(res['distinct'])
        for s in res['samples']:
            if len(m['samples']) < 8:
                m['samples'].append(s)
        m['violations'].extend(res['violations'])
        m['sig_counts'].update(res['sig_counts'])
        m['skipped'].update(res['skipped'])
        m['classes'].update(res['classes'])
        for k, v in res['maxima'].items():
            if k not in m['maxima'] or v > m['maxima'][k]:
                m['maxima'][k] = v
        for k, v in res.get('notes', {}).items():
            m['notes'].setdefault(k, v)
        a = res.get('anchors') or {}
        m['anchors_entered'].update(a.get('entered', []))
        m['anchors_unresolved'].update(a.get('unresolved', []))
        m['monitor_evaluations'].update(res.get('monitor_evaluations', {}))
        allspecs = set(a.get('entered', [])) | set(a.get('missed', []))
        if m['anchors_missed'] is None:
            m['anchors_missed'] = set(allspecs)
        else:
            m['anchors_missed'] |= allspecs
    if m['anchors_missed'] is None:
        m['anchors_missed'] = set()
    m['anchors_missed'] -= m['anchors_entered']
    return m


def main(argv=None):
    ap = argparse.ArgumentParser()
    ap.add_argument('prop')
    ap.add_argument('--tier', default=os.environ.get('VERIF_TIER', 'quick'),
                    choices=['quick', 'thorough'])
    ap.add_argument('--replay', default=None)
    ap.add_argument('--shards', type=int, default=None)
    ap.add_argument('--keep', action='store_true')
    args = ap.parse_args(argv)
    prop = args.prop.upper()
    try:
        seed = int(os.environ.get('VERIF_SEED', '0'))
    except ValueError:
        seed = 0
    sys.path.insert(0, ROOT)
    ensure_deps()
    t0 = time.time()

    if args.replay:
        cmd = [sys.executable, '-X', 'faulthandler', '-W', 'ignore', '-m',
               'vmon.shard', prop, 'replay', args.replay]
        env = dict(os.environ)
        try:
            with open(args.replay) as f:
                env.update(json.load(f).get('variant_env') or {})
        except Exception:
            pass
        return subprocess.run(cmd, cwd=ROOT, env=env).returncode

    mod = importlib.import_module('vmon.props.%s' % prop.lower())
    conf = getattr(mod, 'CONFIG', {})
    nshards = args.shards or conf.get('shards', {}).get(args.tier, 16)
    timeout = conf.get('timeout', {}).get(
        args.tier, 900 if args.tier == 'quick' else 7200)
    workers = min(nshards, int(os.environ.get('VERIF_JOBS', '16')))

    outdir = tempfile.mkdtemp(prefix='vmon_%s_' % prop)
    try:
        with concurrent.futures.ThreadPoolExecutor(workers) as ex:
            futs = [ex.submit(run_one_shard, prop, args.tier, seed, i,
                              nshards, timeout, outdir)
                    for i in range(nshards)]
            # configuration variants: a rotating slice of the same workload
            nvar = conf.get('variant_shards', {}).get(
                args.tier, 2 if args.tier == 'quick' else 4)
            variant_plan = {}
            variants = all_variants(conf)
            for vi, (vname, _) in enumerate(variants):
                if vname in conf.get('no_variants', ()):
                    continue
                idx = sorted(set((seed * 5 + vi * 3 + 1 + j * (
                    nshards // max(1, nvar))) % nshards
                    for j in range(min(nvar, nshards))))
                variant_plan[vname] = idx
                futs += [ex.submit(run_one_shard, prop, args.tier, seed, i,
                                   nshards, timeout, outdir, vname, j,
                                   variants)
                         for j, i in enumerate(idx)]
            results = [f.result() for f in futs]
    finally:
        if not args.keep:
            import shutil
            shutil.rmtree(outdir, ignore_errors=True)

    m = merge(results)
    m['notes']['configuration_variants'] = dict(
        (k, {'workload_shards_repeated': v,
             'shards_ok': sum(1 for r in results if r.get('variant') == k
                              and r['result'] is not None and r['rc'] == 0)})
        for k, v in variant_plan.items())
    inconclusive = []
    dead = [r for r in results if r['result'] is None or r['rc'] != 0]
    for r in dead:
        tail = [ln for ln in (r['stderr'] or '').strip().split('\n')
                if ln.strip() and not set(ln.strip()) <= set('^~ ')]
        inconclusive.append('shard %d%s ended rc=%s: %s' % (
            r['shard'], ' [%s]' % r['variant'] if r.get('variant') else '',
            r['rc'], ' / '.join(tail[-3:])[-400:]))

    # ---- classify discrepancies ----------------------------------------
    known = [k for k in load_known()
             if k.get('property') == prop and k.get('status') == 'open']
    known_keys = {k['key']: k for k in known}
    classify = getattr(mod, 'classify', None)
    hits = {}
    real = []
    for v in m['violations']:
        key = None
        if classify is not None:
            try:
                key = classify(v)
            except Exception:
                key = None
        if key is not None and key in known_keys:
            hits.setdefault(key, []).append(v)
        else:
            real.append(v)
    # signatures beyond the per-shard cap are covered by their representatives

    # ---- inconclusive conditions -----------------------------------------
    required = set(getattr(mod, 'ANCHORS', []))
    missed = sorted(m['anchors_missed'] & required)
    if missed and not real:
        inconclusive.append('anchor functions never entered: %s' % missed)
    if m['anchors_unresolved']:
        inconclusive.append('anchor functions not found: %s'
                            % sorted(m['anchors_unresolved']))
    mins = conf.get('min_nontrivial', {}).get(args.tier, 2)
    if len(m['distinct']) < mins and not real:
        inconclusive.append('only %d distinct non-trivial cases (< %d)'
                            % (len(m['distinct']), mins))
    if m['counters'].get('thread_stress_watchdog_fired') and not real:
        inconclusive.append('the watchdog of a thread stress fired (threads '
                            'did not finish in time; a loaded machine or a '
                            'deadlock: not decided by wall-clock)')
    for name in conf.get('required_counters', []):
        if m['counters'].get(name, 0) + m['monitor_evaluations'].get(name, 0) \
                == 0 and not real:
            inconclusive.append('deciding monitor %r observed nothing' % name)

    # ---- replay files -----------------------------------------------------
    lines = []
    rdir = os.path.join(os.environ.get('VERIF_REPLAY_DIR') or
                        os.path.join(ROOT, 'replays'), prop)
    if os.path.isdir(rdir):       # witnesses of earlier runs are stale
        for fn in os.listdir(rdir):
            if fn.endswith('.json'):
                os.unlink(os.path.join(rdir, fn))
    seen_sig = set()
    for v in real:
        if v['sig'] in seen_sig:
            continue
        seen_sig.add(v['sig'])
        os.makedirs(rdir, exist_ok=True)
        from vmon.core.ctx import digest
        path = os.path.join(rdir, '%s.json' % digest(v['sig'] + json.dumps(
            v['case'], sort_keys=True, default=repr)))
        with open(path, 'w') as f:
            json.dump({'property': prop, 'tier': args.tier, 'seed': seed,
                       'sig': v['sig'], 'case': v['case'],
                       'detail': v['detail'],
                       'variant': v.get('variant'),
                       'variant_env': v.get('variant_env'),
                       'toured': v.get('toured', False),
                       'occurrences': m['sig_counts'].get(v['sig'], 1)},
                      f, indent=1, default=repr)
        lines.append('VIOLATION property=%s replay=%s' % (prop, path))
    for key, vs in sorted(hits.items()):
        print('KNOWN-FINDING: property=%s %s [%s; %d witness(es) this run, '
              'e.g. %s]' % (prop, known_keys[key]['what'], key, len(vs),
                            json.dumps(vs[0]['case'], default=repr)[:200]))

    # ---- evidence ----------------------------------------------------------
    wall = time.time() - t0
    describe = getattr(mod, 'describe', None)
    extra = describe(m, args.tier) if describe else {}
    samples = m['samples'] or [{'note': 'no sample recorded'}]
    coverage = {
        'evaluations': int(m['counters'].get('evaluations', 0)),
        'distinct_nontrivial': len(m['distinct']),
        'rule': getattr(mod, 'RULE', ''),
        'samples': samples,
        'exhaustive': bool(conf.get('exhaustive', False)),
        'counters': dict(m['counters']),
        'classes_filled': dict(m['classes']),
        'skipped': dict(m['skipped']),
        'maxima': m['maxima'],
        'anchor_functions_entered': sorted(m['anchors_entered']),
        'anchor_functions_missed': sorted(m['anchors_missed']),
        'monitor_evaluations': dict(m['monitor_evaluations']),
        'shards_ok': len(results) - len(dead), 'shards_total': len(results),
        'known_findings_hit': {k: len(v) for k, v in hits.items()},
        'violation_signatures': {v['sig']: m['sig_counts'].get(v['sig'], 1)
                                 for v in real},
        'inconclusive': inconclusive,
        'notes': m['notes'],
        'repo_head': repo_head(),
        'python': sys.version.split()[0],
        'technique': technique_of(mod),
    }
    coverage.update(extra)
    ev = {
        'property_id': prop, 'tier': args.tier, 'seed': seed,
        'level': 'exploration', 'coverage': coverage,
        'assumptions': list(getattr(mod, 'ASSUMPTIONS', [])),
        'wall_s': round(wall, 2), 'violations': len(seen_sig),
    }
    evdir = os.environ.get('VERIF_EVIDENCE_DIR') or \
        os.path.join(ROOT, 'evidence')
    os.makedirs(evdir, exist_ok=True)
    tmp = os.path.join(evdir, '.%s.json.tmp' % prop)
    with open(tmp, 'w') as f:
        json.dump(ev, f, indent=1, default=repr, sort_keys=True)
    os.replace(tmp, os.path.join(evdir, '%s.json' % prop))

    for line in lines:
        print(line)
    print('%s tier=%s seed=%d evaluations=%d distinct_nontrivial=%d '
          'violations=%d known=%d shards=%d/%d wall=%.1fs'
          % (prop, args.tier, seed, coverage['evaluations'],
             coverage['distinct_nontrivial'], len(seen_sig), len(hits),
             len(results) - len(dead), len(results), wall))
    if lines:
        return EXIT_VIOLATION
    if inconclusive:
        for r in inconclusive:
            print('INCONCLUSIVE property=%s reason=%s' % (prop, r))
        return EXIT_INCONCLUSIVE
    return EXIT_OK


if __name__ == '__main__':
    sys.exit(main())
