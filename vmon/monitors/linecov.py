"""Line-reach recorder (maintenance aid, off by default).

With VERIF_LINECOV=<dir> every shard records which (file, line) pairs of the
package under test it executed (sys.monitoring LINE events, each location
disabled after its first hit, so the cost is one callback per line).  The
merged result (tools/linecov_report.py) lists the statements of pgradd no
check ever drove: what the monitors cannot have an opinion about.  It decides
no property; the deciding anchors are the per-property ANCHORS.
"""
import json
import os
import sys

TOOL_ID = 1  # sys.monitoring.COVERAGE_ID


class LineCov:
    def __init__(self, root, out):
        self.root = os.path.realpath(root) + os.sep
        self.out = out
        self.seen = set()
        self.on = False

    def start(self):
        mon = sys.monitoring
        try:
            mon.use_tool_id(TOOL_ID, 'vmon-linecov')
        except ValueError:
            return
        root = self.root
        seen = self.seen
        disable = mon.DISABLE

        def on_line(code, line):
            f = code.co_filename
            if f.startswith(root):
                seen.add((f[len(root):], line))
            return disable
        mon.register_callback(TOOL_ID, mon.events.LINE, on_line)
        mon.set_events(TOOL_ID, mon.events.LINE)
        self.on = True

    def stop(self):
        if not self.on:
            return
        mon = sys.monitoring
        mon.set_events(TOOL_ID, 0)
        mon.register_callback(TOOL_ID, mon.events.LINE, None)
        mon.free_tool_id(TOOL_ID)
        self.on = False
        os.makedirs(os.path.dirname(self.out), exist_ok=True)
        with open(self.out, 'w') as f:
            json.dump(sorted(self.seen), f)
