"""Anchor-reach monitor.

For every property the mechanisms named under `anchors` in properties.jsonl
are resolved (once, by hand, at the pinned commit) to qualified function names.
The monitor uses sys.monitoring PY_START local events on exactly those code
objects and disables each after its first hit, so the cost is one callback per
anchor function per shard.  A property whose required anchor functions were
never entered is reported INCONCLUSIVE rather than green.
"""
import importlib
import sys

TOOL_ID = 4  # free tool id (0 debugger, 1 coverage, 2 profiler, 5 optimizer)


def resolve(spec):
    modname, qual = spec.split(':')
    obj = importlib.import_module(modname)
    for part in qual.split('.'):
        obj = getattr(obj, part)
    obj = getattr(obj, '__func__', obj)
    obj = getattr(obj, '__wrapped__', obj) if not hasattr(obj, '__code__') \
        else obj
    return obj.__code__


class AnchorMonitor(object):
    def __init__(self, specs):
        self.specs = list(specs)
        self.codes = {}
        self.unresolved = []
        self.entered = set()
        self.active = False

    def start(self):
        mon = sys.monitoring
        for s in self.specs:
            try:
                self.codes[resolve(s)] = s
            except Exception as exc:  # anchor function vanished
                self.unresolved.append('%s (%s)' % (s, type(exc).__name__))
        try:
            mon.use_tool_id(TOOL_ID, 'vmon-anchors')
        except ValueError:
            return
        self.active = True

        def on_start(code, offset):
            s = self.codes.get(code)
            if s is not None:
                self.entered.add(s)
            return mon.DISABLE
        mon.register_callback(TOOL_ID, mon.events.PY_START, on_start)
        for code in self.codes:
            mon.set_local_events(TOOL_ID, code, mon.events.PY_START)

    def stop(self):
        if not self.active:
            return
        mon = sys.monitoring
        for code in self.codes:
            try:
                mon.set_local_events(TOOL_ID, code, 0)
            except Exception:
                pass
        mon.register_callback(TOOL_ID, mon.events.PY_START, None)
        mon.free_tool_id(TOOL_ID)
        self.active = False

    def report(self):
        return {'entered': sorted(self.entered),
                'missed': sorted(set(self.codes.values()) - self.entered),
                'unresolved': self.unresolved}
