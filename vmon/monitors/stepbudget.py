"""Logical-step budget monitor (C09, C17).

Counts function entries (PY_START) and backward/unconditional jumps (JUMP) in
the code objects of the given modules with sys.monitoring local events and
raises StepBudgetExceeded -- a BaseException, so that no `except Exception`
inside the library can swallow it -- when the budget of the current
observation window is used up.  Wall-clock time is never a verdict.
"""
import sys
import types

from vmon.core.obs import StepBudgetExceeded

TOOL_ID = 3


def code_objects(module):
    seen = set()
    out = []

    def walk(code):
        if code in seen:
            return
        seen.add(code)
        out.append(code)
        for c in code.co_consts:
            if isinstance(c, types.CodeType):
                walk(c)

    for name, obj in vars(module).items():
        if isinstance(obj, types.FunctionType) and \
                obj.__module__ == module.__name__:
            walk(obj.__code__)
        elif isinstance(obj, type) and obj.__module__ == module.__name__:
            for v in vars(obj).values():
                f = getattr(v, '__func__', v)
                if isinstance(f, types.FunctionType):
                    walk(f.__code__)
    return out


class StepBudget(object):
    def __init__(self, modules):
        self.modules = modules
        self.steps = 0
        self.budget = None
        self.active = False
        self.codes = []

    def install(self):
        mon = sys.monitoring
        mon.use_tool_id(TOOL_ID, 'vmon-stepbudget')
        for m in self.modules:
            self.codes += code_objects(m)
        ev = mon.events.PY_START | mon.events.JUMP

        def tick(*args):
            self.steps += 1
            if self.budget is not None and self.steps > self.budget:
                self.budget = None            # fire once per window
                raise StepBudgetExceeded(self.steps)
        mon.register_callback(TOOL_ID, mon.events.PY_START, tick)
        mon.register_callback(TOOL_ID, mon.events.JUMP, tick)
        for c in self.codes:
            mon.set_local_events(TOOL_ID, c, ev)
        self.active = True

    def window(self, budget):
        """Start an observation window with `budget` steps."""
        self.steps = 0
        self.budget = budget

    def close(self):
        n = self.steps
        self.budget = None
        return n

    def uninstall(self):
        if not self.active:
            return
        mon = sys.monitoring
        for c in self.codes:
            mon.set_local_events(TOOL_ID, c, 0)
        mon.register_callback(TOOL_ID, mon.events.PY_START, None)
        mon.register_callback(TOOL_ID, mon.events.JUMP, None)
        mon.free_tool_id(TOOL_ID)
        self.active = False
