"""Independent reference for RING fragments (C02, C08, C09, C14, C16).

  parse(text)        hand-written front end: text -> fragment AST
  render(ast, rng)   AST -> text with random layout and label names
  match(ast, mol)    brute-force matcher: set of index tuples in declaration
                     order over AddHs(mol)
  gen_fragment(rng)  grammar-covering AST generator

Shares no code with pgradd.RINGParser / pgradd.RDkitWrapper.  The denotation
is Appendix R of DESIGN.md.
"""
import re

from rdkit import Chem

PREFIX_CHARGE = ('positive', 'negative', 'neutral')
PREFIX_SAT = ('aromatic', 'olefinic', 'paraffinic')
PREFIX_CYC = ('cyclic', 'linear')
ATOM_PREFIX = ('aromatic', 'nonaromatic', 'ringatom', 'nonringatom',
               'allylic')
BOND_KINDS = ('single', 'double', 'triple', 'quadruple', 'ring', 'nonring',
              'aromatic', 'any', 'strong', 'partial')
SUFFIXES = ('+.', '-.', ':.', '+', '-', '.', ':', '*', '?')
OPS = ('>=', '<=', '>', '<', '=')
RESERVED = set('fragment labeled bond to ringbond connected with in ring of '
               'size has radical electrons stereo double for between and rule '
               'reactant any atom heavy heteroatom group cis trans '
               'notspecified'.split()) | set(PREFIX_CHARGE + PREFIX_SAT +
                                             PREFIX_CYC + ATOM_PREFIX +
                                             BOND_KINDS)


class RingSyntax(Exception):
    pass


class RingSemantic(Exception):
    """undefined label, unknown element ..."""


# ===================================================================== parse
_TOK = re.compile(r'\s*(>=|<=|\+\.|-\.|:\.|[A-Za-z0-9_]+|\S)')


def tokenize(text):
    pos = 0
    out = []
    text = text.rstrip()
    while pos < len(text):
        m = _TOK.match(text, pos)
        if not m:
            break
        out.append(m.group(1))
        pos = m.end()
    return out


class _P(object):
    def __init__(self, toks):
        self.t = toks
        self.i = 0

    def peek(self, k=0):
        return self.t[self.i + k] if self.i + k < len(self.t) else None

    def take(self):
        self.i += 1
        return self.t[self.i - 1]

    def accept(self, *words):
        if self.t[self.i:self.i + len(words)] == list(words):
            self.i += len(words)
            return True
        return False

    def expect(self, *words):
        if not self.accept(*words):
            raise RingSyntax('expected %r at token %d (%r)' % (
                ' '.join(words), self.i, self.peek()))

    def ident(self):
        t = self.peek()
        if t is None or not re.match(r'^[A-Za-z0-9_]+$', t):
            raise RingSyntax('expected identifier at token %d (%r)' % (
                self.i, t))
        return self.take()


def _atomtype(p):
    at = {'prefix': None, 'symbol': None, 'suffix': None}
    if p.peek() in ATOM_PREFIX and p.peek(1) not in ('labeled',):
        at['prefix'] = p.take()
    if p.accept('any', 'atom'):
        at['symbol'] = '$'
    elif p.accept('heavy', 'atom'):
        at['symbol'] = 'X'
    elif p.peek() == 'heteroatom':
        p.take()
        at['symbol'] = '&'
    elif p.peek() in ('$', '&'):
        at['symbol'] = p.take()
    else:
        at['symbol'] = p.ident()
    if p.peek() in SUFFIXES:
        at['suffix'] = p.take()
    return at


def _cnum(p, optional=False):
    op = None
    if p.peek() in OPS:
        op = p.take()
    t = p.peek()
    if t is not None and re.match(r'^[0-9]$', t):
        return op, int(p.take())
    if t is not None and re.match(r'^[0-9][A-Za-z0-9_]+$', t):
        # '2C': the scanner reads ONE digit, the rest is the next token
        p.t[p.i] = t[1:]
        return op, int(t[0])
    if op is None and optional:
        return None, None
    raise RingSyntax('expected digit at token %d (%r)' % (p.i, t))


def _constraint(p):
    neg = False
    if p.peek() == '!':
        p.take()
        neg = True
    if p.accept('connected', 'to'):
        op, n = _cnum(p, optional=True)
        if p.peek() == 'group':
            raise RingSemantic('group-name targets are not supported')
        at = _atomtype(p)
        bond = None
        if p.accept('with'):
            bond = p.take()
            if bond not in BOND_KINDS:
                raise RingSyntax('bond kind %r' % bond)
            p.expect('bond')
        return {'kind': 'conn', 'neg': neg, 'op': op, 'n': n, 'type': at,
                'bond': bond}
    if p.accept('in', 'ring', 'of', 'size'):
        op, n = _cnum(p)
        return {'kind': 'ringsize', 'neg': neg, 'op': op, 'n': n}
    if p.accept('has'):
        op, n = _cnum(p)
        p.expect('radical', 'electrons')
        return {'kind': 'radical', 'neg': neg, 'op': op, 'n': n}
    if p.accept('in'):
        op, n = _cnum(p)
        p.expect('ring')
        return {'kind': 'nring', 'neg': neg, 'op': op, 'n': n}
    raise RingSyntax('expected constraint at token %d (%r)' % (p.i, p.peek()))


def _constraints(p):
    out = []
    if p.peek() == '{':
        p.take()
        out.append(_constraint(p))
        while p.peek() == ',':
            p.take()
            out.append(_constraint(p))
        p.expect('}')
    return out


def _molquery(p, frag):
    """atom { bonded | ringbond | stereo } up to the closing brace."""
    def label_index(lab):
        if lab not in frag['labels']:
            raise RingSemantic('undefined label %r' % lab)
        return frag['labels'].index(lab)      # first declaration wins

    at = _atomtype(p)
    p.expect('labeled')
    lab = p.ident()
    frag['atoms'].append({'type': at, 'label': lab, 'constraints': []})
    frag['labels'].append(lab)
    frag['atoms'][-1]['constraints'] = _constraints(p)
    while p.peek() not in ('}', None):
        if p.peek() == 'ringbond':
            p.take()
            a = p.ident()
            kind = p.take()
            if kind not in BOND_KINDS:
                raise RingSyntax('bond kind %r' % kind)
            p.expect('bond', 'to')
            b = p.ident()
            frag['bonds'].append((label_index(a), label_index(b), kind))
            continue
        if p.accept('stereo', 'double', 'bond'):
            a = p.ident()
            neg = False
            if p.peek() == '!':
                p.take()
                neg = True
            st = p.take()
            if st not in ('cis', 'trans', 'notspecified'):
                raise RingSyntax('stereo type %r' % st)
            p.expect('to')
            b = p.ident()
            p.expect('for', 'double', 'bond', 'between')
            c = p.ident()
            p.expect('and')
            d = p.ident()
            frag['stereo'].append({'a': label_index(a), 'b': label_index(b),
                                   'c': label_index(c), 'd': label_index(d),
                                   'neg': neg, 'type': st})
            continue
        at = _atomtype(p)
        p.expect('labeled')
        lab = p.ident()
        kind = p.take()
        if kind not in BOND_KINDS:
            raise RingSyntax('bond kind %r' % kind)
        p.expect('bond', 'to')
        other = p.ident()
        idx = len(frag['atoms'])
        frag['atoms'].append({'type': at, 'label': lab, 'constraints': []})
        frag['labels'].append(lab)
        j = frag['labels'].index(other)        # may be the atom itself
        frag['bonds'].append((idx, j, kind))
        frag['atoms'][-1]['constraints'] = _constraints(p)


def parse(text):
    p = _P(tokenize(text))
    frag = {'prefix': {'charge': None, 'sat': None, 'cyc': None},
            'name': None, 'atoms': [], 'labels': [], 'bonds': [],
            'stereo': []}
    if p.peek() in PREFIX_CHARGE:
        frag['prefix']['charge'] = p.take()
    if p.peek() in PREFIX_SAT:
        frag['prefix']['sat'] = p.take()
    if p.peek() in PREFIX_CYC:
        frag['prefix']['cyc'] = p.take()
    p.expect('fragment')
    frag['name'] = p.ident()
    p.expect('{')
    _molquery(p, frag)
    p.expect('}')
    if p.peek() is not None:
        raise RingSyntax('trailing text after the fragment: %r' % p.peek())
    return frag


# ==================================================================== render
def _render_type(at, long_names=None):
    sym = at['symbol']
    if long_names is not None:
        alt = {'$': 'any atom', '&': 'heteroatom', 'X': 'heavy atom'}
        if sym in alt and long_names.random() < 0.5:
            sym = alt[sym]
    s = ''
    if at['prefix']:
        s += at['prefix'] + ' '
    s += sym
    if at['suffix']:
        s += at['suffix']
    return s


def _render_cnum(op, n):
    return '' if n is None else (op or '') + str(n)


def _render_constraint(c, rng):
    s = '! ' if c['neg'] else ''
    if rng is not None and c['neg'] and rng.random() < 0.5:
        s = '!'
    if c['kind'] == 'conn':
        s += 'connected to '
        cn = _render_cnum(c['op'], c['n'])
        if cn:
            s += cn + ' '
        s += _render_type(c['type'], rng)
        if c['bond']:
            s += ' with %s bond' % c['bond']
    elif c['kind'] == 'ringsize':
        s += 'in ring of size ' + _render_cnum(c['op'], c['n'])
    elif c['kind'] == 'nring':
        s += 'in ' + _render_cnum(c['op'], c['n']) + ' ring'
    else:
        s += 'has ' + _render_cnum(c['op'], c['n']) + ' radical electrons'
    return s


def render(ast, rng=None, relabel=True):
    """Text of a fragment AST.  With rng: random whitespace (spaces, tabs,
    newlines; none where two tokens cannot fuse) and fresh label names."""
    def ws(required=True):
        if rng is None:
            return ' '
        opts = [' ', '  ', '\n', '\t', '\n    ', ' \n'] if required else \
            ['', ' ', '\n', '', '\t']
        return rng.choice(opts)

    labels = list(ast['labels'])
    if rng is not None and relabel:
        style = rng.choice(['a%d', 'L_%d', '%d', 'atom%dx', 'q%d_'])
        mapping = {}
        for lab in labels:
            if lab not in mapping:
                mapping[lab] = style % (len(mapping) + 1)
        labels = [mapping[x] for x in labels]
    out = []
    pre = ast['prefix']
    for k in ('charge', 'sat', 'cyc'):
        if pre[k]:
            out.append(pre[k] + ws())
    out.append('fragment' + ws() + (ast['name'] or 'f') + ws(False) + '{' +
               ws(False))

    def cons(cs):
        if not cs:
            return ''
        return ws(False) + '{' + ws(False) + (ws(False) + ',' + ws(False)
                                              ).join(
            _render_constraint(c, rng) for c in cs) + ws(False) + '}'

    bonds_of = {}
    ringbonds = []
    for (i, j, kind) in ast['bonds']:
        # the first bond of atom i to an earlier atom is its declaration
        # bond; every other bond is written as a ring closure
        if i not in bonds_of and i > 0 and j < i:
            bonds_of[i] = (j, kind)
        else:
            ringbonds.append((i, j, kind))
    a0 = ast['atoms'][0]
    out.append(_render_type(a0['type'], rng) + ws() + 'labeled' + ws() +
               labels[0] + cons(a0['constraints']))
    for i in range(1, len(ast['atoms'])):
        a = ast['atoms'][i]
        j, kind = bonds_of[i]
        out.append(ws() + _render_type(a['type'], rng) + ws() + 'labeled' +
                   ws() + labels[i] + ws() + kind + ws() + 'bond to' + ws() +
                   labels[j] + cons(a['constraints']))
        # ring closures are written as soon as both ends exist
        for rb in [r for r in ringbonds if max(r[0], r[1]) == i]:
            out.append(ws() + 'ringbond' + ws() + labels[rb[0]] + ws() +
                       rb[2] + ws() + 'bond to' + ws() + labels[rb[1]])
            ringbonds.remove(rb)
    for st in ast.get('stereo', []):
        out.append(ws() + 'stereo double bond' + ws() + labels[st['a']] +
                   ws() + ('!' if st['neg'] else '') + st['type'] + ws() +
                   'to' + ws() + labels[st['b']] + ws() +
                   'for double bond between' + ws() + labels[st['c']] + ws() +
                   'and' + ws() + labels[st['d']])
    out.append(ws(False) + '}')
    return ''.join(out)


# ===================================================================== match
HETERO = (7, 8, 15, 16)
_PT = Chem.GetPeriodicTable()
BT = Chem.BondType
_Z = {}


def _z(el):
    if el not in _Z:
        try:
            _Z[el] = _PT.GetAtomicNumber(el)
        except Exception:
            raise RingSemantic('unknown element %r' % el)
        if _Z[el] <= 0:
            raise RingSemantic('unknown element %r' % el)
    return _Z[el]


def _cmp(op, a, b):
    op = op or '='
    return {'=': a == b, '>': a > b, '<': a < b, '>=': a >= b,
            '<=': a <= b}[op]


class Facts(object):
    """Molecule facts read once from RDKit (the INPUT of the matching, not
    the thing under test): per atom element / charge / radical electrons /
    aromatic flag / ring membership, adjacency with bond type and ring flag,
    SSSR rings."""
    def __init__(self, m):
        self.mol = m
        self.n = m.GetNumAtoms()
        self.z = [a.GetAtomicNum() for a in m.GetAtoms()]
        self.q = [a.GetFormalCharge() for a in m.GetAtoms()]
        self.r = [a.GetNumRadicalElectrons() for a in m.GetAtoms()]
        self.arom = [a.GetIsAromatic() for a in m.GetAtoms()]
        self.inring = [a.IsInRing() for a in m.GetAtoms()]
        self.nbrs = [[] for _ in range(self.n)]
        self.bond = {}
        for b in m.GetBonds():
            i, j = b.GetBeginAtomIdx(), b.GetEndAtomIdx()
            info = (b.GetBondType(), b.IsInRing())
            self.nbrs[i].append((j, info))
            self.nbrs[j].append((i, info))
            self.bond[(i, j)] = info
            self.bond[(j, i)] = info
        self.rings = [tuple(r) for r in m.GetRingInfo().AtomRings()]
        self.ring_sizes = [[] for _ in range(self.n)]
        for r in self.rings:
            for i in r:
                self.ring_sizes[i].append(len(r))
        self.total_charge = sum(self.q)
        self.has_arom = any(self.arom)
        self.has_cc_double = any(
            info[0] == BT.DOUBLE and self.z[i] == 6 and self.z[j] == 6
            for (i, j), info in self.bond.items())


def element_ok(sym, i, f):
    z = f.z[i]
    if sym == '$':
        return z > 0
    if sym == '&':
        return z in HETERO
    if sym == 'X':
        return z > 1
    if sym == 'M':
        return z > 19
    if sym[0].islower():
        return _z(sym[0].upper() + sym[1:]) == z and f.arom[i]
    return _z(sym) == z


def type_ok(at, i, f, verdict):
    """verdict: list collecting constructs without an independent meaning."""
    if not element_ok(at['symbol'], i, f):
        return False
    sfx = at['suffix']
    q, r = f.q[i], f.r[i]
    if sfx is None:
        if q != 0 or r != 0:
            return False
    elif sfx == '+':
        if q != 1:
            return False
    elif sfx == '-':
        if q != -1:
            return False
    elif sfx == '.':
        if r != 1:
            return False
    elif sfx == ':':
        if r != 2:
            return False
    elif sfx == ':.':
        if r != 3:
            return False
    elif sfx == '+.':
        if q != 1 or r != 1:
            return False
    elif sfx == '-.':
        if q != -1 or r != 1:
            return False
    elif sfx == '*':
        verdict.append('* suffix')
    pre = at['prefix']
    if pre == 'aromatic' and not f.arom[i]:
        return False
    if pre == 'nonaromatic' and f.arom[i]:
        return False
    if pre == 'ringatom' and not f.inring[i]:
        return False
    if pre == 'nonringatom' and f.inring[i]:
        return False
    if pre == 'allylic':
        # meaning pinned by the repository's own test_atom_prefix3 ('CC=C':
        # the =CH- carbon is the 'allylic C'): the atom carries a double bond
        if not any(info[0] == BT.DOUBLE for _, info in f.nbrs[i]):
            return False
    return True


def bond_ok(kind, info):
    t, inring = info
    if kind == 'single':
        return t == BT.SINGLE
    if kind == 'double':
        return t == BT.DOUBLE
    if kind == 'triple':
        return t == BT.TRIPLE
    if kind == 'quadruple':
        return t == BT.QUADRUPLE
    if kind == 'aromatic':
        return t == BT.AROMATIC
    if kind == 'ring':
        return inring
    if kind == 'nonring':
        return not inring
    if kind == 'any':
        return True
    if kind == 'strong':
        return t in (BT.DOUBLE, BT.TRIPLE, BT.QUADRUPLE, BT.AROMATIC)
    if kind == 'partial':
        return t in (BT.DATIVE, BT.ZERO, BT.OTHER)
    raise RingSyntax(kind)


def constraint_ok(c, i, f, verdict):
    if c['kind'] == 'conn':
        cnt = 0
        kind = c['bond'] or 'single'
        for j, info in f.nbrs[i]:
            if bond_ok(kind, info) and type_ok(c['type'], j, f, verdict):
                cnt += 1
        res = _cmp('>=' if c['n'] is None else c['op'],
                   cnt, 1 if c['n'] is None else c['n'])
    elif c['kind'] == 'ringsize':
        res = any(_cmp(c['op'], n, c['n']) for n in f.ring_sizes[i])
    elif c['kind'] == 'nring':
        res = _cmp(c['op'], len(f.ring_sizes[i]), c['n'])
    else:
        res = _cmp(c['op'], f.r[i], c['n'])
    return (not res) if c['neg'] else res


def mol_prefix_ok(pre, f):
    if pre['charge']:
        if f.total_charge != {'positive': 1, 'negative': -1, 'neutral': 0}[
                pre['charge']]:
            return False
    if pre['sat']:
        if pre['sat'] == 'aromatic':
            if not f.has_arom:
                return False
        elif pre['sat'] == 'olefinic':
            if not f.has_cc_double:
                return False
        elif f.has_cc_double:
            return False
    if pre['cyc']:
        if (pre['cyc'] == 'cyclic') != (len(f.rings) > 0):
            return False
    return True


def stereo_ok(st, assign, mol):
    """cis/trans relation of substituents a, b across the double bond c=d."""
    bond = mol.GetBondBetweenAtoms(assign[st['c']], assign[st['d']])
    if bond is None:
        return False
    s = bond.GetStereo()
    want = {'cis': Chem.BondStereo.STEREOZ, 'trans': Chem.BondStereo.STEREOE,
            'notspecified': Chem.BondStereo.STEREONONE}[st['type']]
    if s == Chem.BondStereo.STEREONONE:
        res = (want == s)
    else:
        cis = s in (Chem.BondStereo.STEREOZ, Chem.BondStereo.STEREOCIS)
        sa = set(bond.GetStereoAtoms())
        flips = sum(1 for x in (assign[st['a']], assign[st['b']])
                    if x not in sa)
        if flips == 1:
            cis = not cis
        eff = Chem.BondStereo.STEREOZ if cis else Chem.BondStereo.STEREOE
        res = (want == eff)
    return (not res) if st['neg'] else res


def _plan(ast):
    need = {}
    anchor = {}
    for (i, j, kind) in ast['bonds']:
        need.setdefault(max(i, j), []).append((i, j, kind))
        if i not in anchor and j < i:
            anchor[i] = j
    return need, anchor


def search(ast, f, first=None, stop_at_first=False, limit=200000):
    """All (or the first) embeddings; `first` pins pattern atom 0."""
    verdict = []
    out = []
    if not mol_prefix_ok(ast['prefix'], f):
        return out, verdict
    n = len(ast['atoms'])
    need, anchor = _plan(ast)
    assign = [None] * n
    used = set()
    stereo = ast.get('stereo') or []

    def ok_atom(k, idx):
        a = ast['atoms'][k]
        if not type_ok(a['type'], idx, f, verdict):
            return False
        for (i, j, kind) in need.get(k, ()):
            other = j if i == k else i
            if other == k:
                return False          # a bond to itself cannot exist
            if assign[other] is None:
                continue
            info = f.bond.get((idx, assign[other]))
            if info is None or not bond_ok(kind, info):
                return False
        for c in a['constraints']:
            if not constraint_ok(c, idx, f, verdict):
                return False
        return True

    def rec(k):
        if k == n:
            if all(stereo_ok(st, assign, f.mol) for st in stereo):
                out.append(tuple(assign))
                return stop_at_first
            return False
        if len(out) > limit:
            return True
        if k == 0 and first is not None:
            cands = [first]
        elif k in anchor and assign[anchor[k]] is not None:
            cands = [j for j, _ in f.nbrs[assign[anchor[k]]]]
        else:
            cands = range(f.n)
        for idx in cands:
            if idx in used:
                continue
            assign[k] = idx
            if ok_atom(k, idx):
                used.add(idx)
                stop = rec(k + 1)
                used.discard(idx)
                if stop:
                    assign[k] = None
                    return True
            assign[k] = None
        return False

    rec(0)
    return out, sorted(set(verdict))


def match(ast, mol, add_hs=True, limit=200000, facts=None):
    """-> (set of index tuples in declaration order, no-verdict notes)."""
    if facts is None:
        facts = Facts(Chem.AddHs(mol) if add_hs else mol)
    out, verdict = search(ast, facts, limit=limit)
    return set(out), verdict


def first_atoms(ast, facts):
    """Atoms that can be the first (centre) atom of some embedding."""
    res = set()
    for i in range(facts.n):
        out, _ = search(ast, facts, first=i, stop_at_first=True)
        if out:
            res.add(i)
    return res


# ================================================================= generator
SYMBOLS = ['C', 'C', 'C', 'O', 'H', 'N', '$', '&', 'X', 'Pt', 'c', 'M', 'n',
           'o', 'S']
GEN_SUFFIX = [None, None, None, None, '?', '?', '.', ':', ':.', '+', '-',
              '+.', '-.']
GEN_PREFIX = [None, None, None, None, None, 'aromatic', 'nonaromatic',
              'ringatom', 'nonringatom', 'allylic']
GEN_BOND = ['single', 'single', 'single', 'double', 'triple', 'quadruple',
            'aromatic', 'ring', 'nonring', 'any', 'any', 'strong', 'partial']


def gen_type(rng, symbols=SYMBOLS, suffixes=GEN_SUFFIX, prefixes=GEN_PREFIX):
    sym = rng.choice(symbols)
    sfx = rng.choice(suffixes)
    if sym[0].islower() and sfx is None:
        sfx = '?'          # a lowercase symbol without suffix is defect #6's
    return {'prefix': rng.choice(prefixes), 'symbol': sym, 'suffix': sfx}


def gen_constraint(rng):
    kind = rng.choice(['conn', 'conn', 'conn', 'ringsize', 'nring',
                       'radical'])
    neg = rng.random() < 0.3
    op = rng.choice([None, '=', '>', '<', '>=', '<='])
    if kind == 'conn':
        n = rng.choice([None, 0, 1, 2, 3, 4])
        if n is None:
            op = None
        return {'kind': 'conn', 'neg': neg, 'op': op, 'n': n,
                'type': gen_type(rng, prefixes=[None, None, None, 'ringatom',
                                                'nonaromatic', 'aromatic']),
                'bond': rng.choice([None, None, 'single', 'double', 'any',
                                    'aromatic', 'strong', 'ring', 'nonring',
                                    'triple'])}
    if kind == 'ringsize':
        return {'kind': kind, 'neg': neg, 'op': op,
                'n': rng.choice([3, 4, 5, 6, 7])}
    if kind == 'nring':
        return {'kind': kind, 'neg': neg, 'op': op,
                'n': rng.choice([0, 1, 2, 3])}
    return {'kind': kind, 'neg': neg, 'op': op, 'n': rng.choice([0, 1, 2, 3])}


def gen_fragment(rng, max_atoms=5, p_constraint=0.35, p_prefix=0.15,
                 p_ringbond=0.15):
    n = rng.randint(1, max_atoms)
    frag = {'prefix': {'charge': None, 'sat': None, 'cyc': None},
            'name': rng.choice(['a', 'frag1', 'X_1', 'q', 'fragment1']),
            'atoms': [], 'labels': [], 'bonds': [], 'stereo': []}
    if rng.random() < p_prefix:
        frag['prefix']['charge'] = rng.choice([None] + list(PREFIX_CHARGE))
        frag['prefix']['sat'] = rng.choice([None] + list(PREFIX_SAT))
        frag['prefix']['cyc'] = rng.choice([None] + list(PREFIX_CYC))
    for i in range(n):
        cs = []
        while rng.random() < p_constraint and len(cs) < 3:
            cs.append(gen_constraint(rng))
        frag['atoms'].append({'type': gen_type(rng), 'label': 'l%d' % i,
                              'constraints': cs})
        frag['labels'].append('l%d' % i)
        if i > 0:
            frag['bonds'].append((i, rng.randrange(i), rng.choice(GEN_BOND)))
    if n >= 3 and rng.random() < p_ringbond:
        i = rng.randrange(2, n)
        existing = set((min(a, b), max(a, b)) for a, b, _ in frag['bonds'])
        cands = [j for j in range(i) if (j, i) not in existing]
        if cands:
            frag['bonds'].append((i, rng.choice(cands),
                                  rng.choice(GEN_BOND)))
    return frag


def uses_no_verdict_construct(ast):
    def t(at):
        return at['suffix'] == '*'
    for a in ast['atoms']:
        if t(a['type']):
            return True
        for c in a['constraints']:
            if c['kind'] == 'conn' and t(c['type']):
                return True
    return False
