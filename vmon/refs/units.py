"""Independent reference model of the unit algebra (C10, C11, C12).

Written from the SI brochure / NIST SP 811 -- not copied from
pgradd/Units/builtin.py.  Magnitudes are exact Fractions for defined units and
documented values for measured constants; every unit carries a 7-vector of
Fraction exponents over (m, kg, s, A, K, mol, cd).
"""
from fractions import Fraction as F
import itertools
import math

DIMS = ('m', 'kg', 's', 'A', 'K', 'mol', 'cd')


def vec(**kw):
    return tuple(F(kw.get(d, 0)) for d in DIMS)


ZERO = vec()

# name -> (list of acceptable exact SI magnitudes, exponent vector, measured?)
_N = vec(kg=1, m=1, s=-2)
_J = vec(kg=1, m=2, s=-2)
_PA = vec(kg=1, m=-1, s=-2)
_W = vec(kg=1, m=2, s=-3)
_LBF = F('4.4482216152605')          # lb * g_n (exact by definition)
_IN = F('0.0254')
_FT = F('0.3048')
UNITS = {
    'm': ([F(1)], vec(m=1), False),
    'g': ([F(1, 1000)], vec(kg=1), False),
    's': ([F(1)], vec(s=1), False),
    'A': ([F(1)], vec(A=1), False),
    'K': ([F(1)], vec(K=1), False),
    'mol': ([F(1)], vec(mol=1), False),
    'cd': ([F(1)], vec(cd=1), False),
    'N': ([F(1)], _N, False),
    'Pa': ([F(1)], _PA, False),
    'J': ([F(1)], _J, False),
    'W': ([F(1)], _W, False),
    'C': ([F(1)], vec(A=1, s=1), False),
    'V': ([F(1)], vec(kg=1, m=2, s=-3, A=-1), False),
    'F': ([F(1)], vec(kg=-1, m=-2, s=4, A=2), False),
    'Ohm': ([F(1)], vec(kg=1, m=2, s=-3, A=-2), False),
    # count
    'molecule': ([1 / F('6.02214076e23'), 1 / F('6.02214179e23')],
                 vec(mol=1), True),
    # length, volume, time
    'in': ([_IN], vec(m=1), False),
    'ft': ([_FT], vec(m=1), False),
    'L': ([F(1, 1000)], vec(m=3), False),
    'min': ([F(60)], vec(s=1), False),
    'h': ([F(3600)], vec(s=1), False),
    # mass
    'u': ([F('1.66053906660e-27')], vec(kg=1), True),
    'lb': ([F('0.45359237')], vec(kg=1), False),
    't': ([F(1000)], vec(kg=1), False),
    # force
    'dyn': ([F(1, 100000)], _N, False),
    'lbf': ([_LBF], _N, True),
    # pressure
    'bar': ([F(100000)], _PA, False),
    'atm': ([F(101325)], _PA, False),
    'torr': ([F(101325, 760)], _PA, False),
    'psi': ([_LBF / (_IN * _IN)], _PA, True),
    # energy
    'cal': ([F('4.184'), F('4.1868')], _J, False),
    'erg': ([F(1, 10 ** 7)], _J, False),
    'BTU': ([F('1054.35026444'), F('1055.05585262'), F('1054.350')], _J,
            False),
    'eV': ([F('1.602176634e-19')], _J, True),
    # power
    'hp': ([550 * _FT * _LBF, F('735.49875'), F(746)], _W, True),
    # viscosity
    'P': ([F(1, 10)], vec(kg=1, m=-1, s=-1), False),
    'St': ([F(1, 10000)], vec(m=2, s=-1), False),
}
PREFIXES = {
    'Y': 24, 'Z': 21, 'E': 18, 'P': 15, 'T': 12, 'G': 9, 'M': 6, 'k': 3,
    'h': 2, 'da': 1, 'd': -1, 'c': -2, 'm': -3, 'u': -6, 'n': -9, 'p': -12,
    'f': -15, 'a': -18, 'z': -21, 'y': -24,
}


class UnknownUnit(Exception):
    pass


AMBIGUOUS = sorted(n for n, (alts, _, _) in UNITS.items() if len(alts) > 1)


def split(name):
    """Documented rule: exact name first, then one-letter SI prefix, then
    'da'.  Returns (power of ten, base unit name)."""
    if name in UNITS:
        return 0, name
    if len(name) > 1 and name[1:] in UNITS and name[:1] in PREFIXES:
        return PREFIXES[name[:1]], name[1:]
    if len(name) > 2 and name[2:] in UNITS and name[:2] == 'da':
        return 1, name[2:]
    raise UnknownUnit(name)


def resolvable(name):
    try:
        split(name)
        return True
    except UnknownUnit:
        return False


def lookup(name, choice=None):
    p, base = split(name)
    alts, v, meas = UNITS[base]
    a = alts[(choice or {}).get(base, 0)]
    return a * F(10) ** p, v, (1.0 if meas else 0.0)


class Val(object):
    def __init__(self, mag, v=ZERO, measured=0.0):
        # measured: total |power| of measured constants in the expression
        self.mag = mag
        self.v = tuple(v)
        self.measured = measured

    def dimensionless(self):
        return all(abs(float(x)) <= 1e-7 for x in self.v)


def _pow(x, e):
    if isinstance(e, F) and e.denominator == 1 and isinstance(x, F):
        if x == 0 and e < 0:
            raise ZeroDivisionError
        return x ** int(e)
    if float(x) == 0 and e < 0:
        raise ZeroDivisionError
    if float(x) < 0 and F(e).denominator != 1:
        raise OverflowError('negative base, fractional power')
    return float(x) ** float(e)


def _combine(a, b, op):
    x, y = a.mag, b.mag
    if op == '*':
        mag = x * y if isinstance(x, F) and isinstance(y, F) \
            else float(x) * float(y)
    else:
        if y == 0:
            raise ZeroDivisionError
        mag = x / y if isinstance(x, F) and isinstance(y, F) \
            else float(x) / float(y)
    sign = 1 if op == '*' else -1
    v = tuple(p + sign * q for p, q in zip(a.v, b.v))
    return Val(mag, v, a.measured + b.measured)


def evaluate(ast, choice=None):
    """AST: ('num', text) | ('unit', name) | ('mul', a, b) | ('div', a, b) |
    ('jux', a, b) | ('pow', a, numtext) | ('par', a)."""
    t = ast[0]
    if t == 'num':
        return Val(F(ast[1]))
    if t == 'unit':
        return Val(*lookup(ast[1], choice))
    if t in ('mul', 'jux'):
        return _combine(evaluate(ast[1], choice), evaluate(ast[2], choice),
                        '*')
    if t == 'div':
        return _combine(evaluate(ast[1], choice), evaluate(ast[2], choice),
                        '/')
    if t == 'par':
        return evaluate(ast[1], choice)
    if t == 'pow':
        a = evaluate(ast[1], choice)
        e = F(ast[2])
        return Val(_pow(a.mag, e), tuple(x * e for x in a.v),
                   a.measured * abs(float(e)))
    raise ValueError(t)


def unit_names(ast, acc=None):
    acc = set() if acc is None else acc
    if ast[0] == 'unit':
        acc.add(split(ast[1])[1])
    else:
        for x in ast[1:]:
            if isinstance(x, tuple):
                unit_names(x, acc)
    return acc


def choices(*asts):
    """All consistent assignments of the customary units that have more than
    one standard definition (cal, BTU, hp, molecule) occurring in the ASTs."""
    names = set()
    for a in asts:
        unit_names(a, names)
    amb = [n for n in AMBIGUOUS if n in names]
    out = []
    for combo in itertools.product(*[range(len(UNITS[n][0])) for n in amb]):
        out.append(dict(zip(amb, combo)))
    return out or [{}]


def render(ast, rng=None):
    """Text of an AST.  Spacing is random where it cannot change the
    tokenisation."""
    def sp():
        return '' if rng is None else rng.choice(['', ' ', ' '])
    t = ast[0]
    if t == 'num':
        return ast[1]
    if t == 'unit':
        return ast[1]
    if t == 'mul':
        return render(ast[1], rng) + sp() + '*' + sp() + render(ast[2], rng)
    if t == 'div':
        return render(ast[1], rng) + sp() + '/' + sp() + render(ast[2], rng)
    if t == 'jux':
        return render(ast[1], rng) + ' ' + render(ast[2], rng)
    if t == 'par':
        return '(' + sp() + render(ast[1], rng) + sp() + ')'
    if t == 'pow':
        e = ast[2]
        if rng is not None and rng.random() < 0.3:
            e = '(' + e + ')'
        return render(ast[1], rng) + sp() + '^' + sp() + e
    raise ValueError(t)


def snap(x):
    x = float(x)
    return float(round(x)) if abs(x - round(x)) <= 1e-7 else x


def compare(val, value, exps, rel_exact=1e-12, rel_measured=1e-6):
    """Compare an observed (magnitude, 7 exponents or None for a plain
    number) with one reference value.  None if equal else a reason."""
    if exps is None:
        if not val.dimensionless():
            return 'plain number returned for a dimensional quantity'
    else:
        if val.dimensionless():
            return 'quantity object returned for a dimensionless result'
        for got, want in zip(exps, val.v):
            if abs(float(got) - snap(want)) > 1e-9:
                return 'exponents differ: got %s want %s' % (
                    [float(x) for x in exps], [float(x) for x in val.v])
    rel = rel_exact + rel_measured * val.measured
    m = float(val.mag)
    if value == m or abs(float(value) - m) <= rel * abs(m):
        return None
    return 'magnitude differs: got %r want %r' % (value, m)


def check(ast, value, exps, extra_asts=()):
    """None if the observation agrees with the reference under some
    consistent choice of the ambiguous customary definitions."""
    why = None
    for ch in choices(ast, *extra_asts):
        why = compare(evaluate(ast, ch), value, exps)
        if why is None:
            return None
    return why
