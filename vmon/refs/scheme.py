"""Independent interpreter of a scheme file (C02, C03, C04, C15).

Reads scheme.yaml with yaml.safe_load, parses every connectivity with the
harness's own RING front end (refs/ring.py) and matches with its own
brute-force matcher; group names are canonicalised by the harness's own
renderer.  Shares no code with pgradd.GroupAdd.Scheme.
"""
import collections
import re

from rdkit import Chem

from vmon.refs import ring as R

BT = Chem.BondType
_GROUP_RE = re.compile(r'\(([^()]*)\)(\d*)')
_GROUP_FULL = re.compile(r'^[^()]*(\([^()]*\)\d*)+$')


def canon(centre, periph_counter):
    out = centre
    for k in sorted(periph_counter):
        if periph_counter[k] > 0:
            out += '(%s)' % k + (str(periph_counter[k])
                                 if periph_counter[k] > 1 else '')
    return out


def canon_name(text):
    """Canonical spelling of a name written with group syntax; other names
    (descriptor names) are returned unchanged."""
    if not _GROUP_FULL.match(text):
        return text
    centre = text[:text.index('(')]
    cnt = collections.Counter()
    for name, n in _GROUP_RE.findall(text):
        cnt[name] += int(n) if n else 1
    return canon(centre, cnt)


class Unparseable(Exception):
    pass


def candidate_benson_rings(m):
    """SSSR rings of six carbons whose (current) bonds alternate
    single/double."""
    out = []
    for ring in m.GetRingInfo().AtomRings():
        if len(ring) != 6:
            continue
        if any(m.GetAtomWithIdx(i).GetAtomicNum() != 6 for i in ring):
            continue
        types = [m.GetBondBetweenAtoms(ring[k], ring[(k + 1) % 6]
                                       ).GetBondType() for k in range(6)]
        if all(t in (BT.SINGLE, BT.DOUBLE) for t in types) and all(
                types[k] != types[(k + 1) % 6] for k in range(6)):
            out.append(tuple(ring))
    return out


def normalise(smiles):
    """The harness's own statement of the input normalisation: parse, clear
    aromaticity by kekulisation, add H, unspecified -> zero-order bonds,
    alternating C6 rings become aromatic.  Returns (mol, fused) where fused
    is True when two alternating C6 rings share a bond (then perception
    depends on visit order and C03 owns the question)."""
    m = Chem.MolFromSmiles(smiles)
    if m is None:
        raise Unparseable(smiles)
    # fused benzenoid systems: which ring alternates depends on the Kekule
    # structure RDKit happens to pick, not on the molecule
    aro6 = [set(r) for r in m.GetRingInfo().AtomRings()
            if len(r) == 6 and all(m.GetAtomWithIdx(i).GetIsAromatic() and
                                   m.GetAtomWithIdx(i).GetAtomicNum() == 6
                                   for i in r)]
    fused_aromatic = any(len(aro6[a] & aro6[b]) >= 2
                         for a in range(len(aro6))
                         for b in range(a + 1, len(aro6)))
    free = set((min(b.GetBeginAtomIdx(), b.GetEndAtomIdx()),
                max(b.GetBeginAtomIdx(), b.GetEndAtomIdx()))
               for b in m.GetBonds() if b.GetIsAromatic())
    Chem.Kekulize(m, clearAromaticFlags=True)
    m = Chem.AddHs(m)
    m.SetProp('_vmon_kekule_free', repr(sorted(free)))
    for b in m.GetBonds():
        if b.GetBondType() == BT.UNSPECIFIED:
            b.SetBondType(BT.ZERO)
    rings = candidate_benson_rings(m)
    fused = fused_aromatic
    for a in range(len(rings)):
        for b in range(a + 1, len(rings)):
            if len(set(rings[a]) & set(rings[b])) >= 2:
                fused = True
    if not fused:
        for ring in rings:
            for k in range(6):
                m.GetAtomWithIdx(ring[k]).SetIsAromatic(True)
                bd = m.GetBondBetweenAtoms(ring[k], ring[(k + 1) % 6])
                bd.SetIsAromatic(True)
                bd.SetIsConjugated(True)
                bd.SetBondType(BT.AROMATIC)
    return m, fused


def mol_signature(m, kekule_free=()):
    """Atom / bond facts that the matching depends on.  Bonds that RDKit
    perceived as aromatic in the parsed input have no unique Kekule form:
    for those only 'single-or-double-or-aromatic' is recorded."""
    atoms = [(a.GetAtomicNum(), a.GetFormalCharge(),
              a.GetNumRadicalElectrons(),
              a.GetIsAromatic() if not kekule_free else None)
             for a in m.GetAtoms()]
    bonds = []
    for b in m.GetBonds():
        key = (min(b.GetBeginAtomIdx(), b.GetEndAtomIdx()),
               max(b.GetBeginAtomIdx(), b.GetEndAtomIdx()))
        t = str(b.GetBondType())
        if key in kekule_free and t in ('SINGLE', 'DOUBLE', 'AROMATIC'):
            t = 'kekule-free'
        bonds.append(key + (t, str(b.GetStereo())))
    return atoms, sorted(bonds)


def kekule_free_bonds(m):
    return set(tuple(x) for x in eval(m.GetProp('_vmon_kekule_free'))) \
        if m.HasProp('_vmon_kekule_free') else set()


class DecompositionError(Exception):
    def __init__(self, why, atom):
        Exception.__init__(self, why)
        self.why = why
        self.atom = atom


# SMARTS / SMILES correction descriptors: a closed table of pattern texts with
# their meaning written down by hand (element numbers, bonds with order or
# None for '~'), so that no SMARTS engine is needed on the reference side.
SMARTS_TABLE = {
    '[#6]-[#8]': ([6, 8], [(0, 1, 1.0)]),
    '[#6]-[#1]': ([6, 1], [(0, 1, 1.0)]),
    '[#8]-[#1]': ([8, 1], [(0, 1, 1.0)]),
    '[#6]=[#6]': ([6, 6], [(0, 1, 2.0)]),
    '[#6]=[#8]': ([6, 8], [(0, 1, 2.0)]),
    '[#6]#[#6]': ([6, 6], [(0, 1, 3.0)]),
    '[#6]~[#6]': ([6, 6], [(0, 1, None)]),
    '[#6]-[#6]-[#6]': ([6, 6, 6], [(0, 1, 1.0), (1, 2, 1.0)]),
    '[#6](-[#1])-[#8]': ([6, 1, 8], [(0, 1, 1.0), (0, 2, 1.0)]),
    '[#6](-[#6])(-[#6])-[#6]': ([6, 6, 6, 6], [(0, 1, 1.0), (0, 2, 1.0),
                                               (0, 3, 1.0)]),
    '[#6]:[#6]': ([6, 6], [(0, 1, 1.5)]),
    '[#1]-[#6]-[#1]': ([1, 6, 1], [(0, 1, 1.0), (1, 2, 1.0)]),
}
SMILES_TABLE = {
    'CO': ([6, 8], [(0, 1, 1.0)]),
    'CC': ([6, 6], [(0, 1, 1.0)]),
    'C=C': ([6, 6], [(0, 1, 2.0)]),
    'C=O': ([6, 8], [(0, 1, 2.0)]),
    'C#C': ([6, 6], [(0, 1, 3.0)]),
    'CCC': ([6, 6, 6], [(0, 1, 1.0), (1, 2, 1.0)]),
    'COC': ([6, 8, 6], [(0, 1, 1.0), (1, 2, 1.0)]),
    'CC(C)C': ([6, 6, 6, 6], [(0, 1, 1.0), (1, 2, 1.0), (1, 3, 1.0)]),
    'C=CC': ([6, 6, 6], [(0, 1, 2.0), (1, 2, 1.0)]),
    'c1ccccc1': ([6] * 6, [(i, (i + 1) % 6, 1.5) for i in range(6)]),
    'OCO': ([8, 6, 8], [(0, 1, 1.0), (1, 2, 1.0)]),
}


def plain_graph(m):
    """Labelled graph of the atoms RDKit holds explicitly in `m`."""
    import networkx as nx
    g = nx.Graph()
    for a in m.GetAtoms():
        g.add_node(a.GetIdx(), z=a.GetAtomicNum())
    for b in m.GetBonds():
        g.add_edge(b.GetBeginAtomIdx(), b.GetEndAtomIdx(),
                   o=b.GetBondTypeAsDouble())
    return g


def count_atom_sets(g, zs, bonds):
    """Number of distinct atom sets onto which the pattern (zs, bonds) maps
    by an injective, element- and bond-order-preserving map (extra bonds
    between matched atoms allowed: substructure, not induced subgraph)."""
    n = len(zs)
    adj = {i: [] for i in range(n)}
    for i, j, o in bonds:
        adj[i].append((j, o))
        adj[j].append((i, o))
    found = set()

    def ok(i, v, emb):
        if g.nodes[v]['z'] != zs[i] or v in emb.values():
            return False
        for j, o in adj[i]:
            if j in emb:
                if not g.has_edge(v, emb[j]):
                    return False
                if o is not None and abs(g[v][emb[j]]['o'] - o) > 1e-9:
                    return False
        return True

    def rec(i, emb):
        if i == n:
            found.add(frozenset(emb.values()))
            return
        for v in g.nodes:
            if ok(i, v, emb):
                emb[i] = v
                rec(i + 1, emb)
                del emb[i]
    rec(0, {})
    return len(found)


class SchemeRef(object):
    def __init__(self, data):
        self.patterns = []
        for p in data.get('patterns') or []:
            self.patterns.append((p['center_name'], p['periph_name'],
                                  R.parse(p['connectivity'])))
        self.descs = []
        for p in data.get('other_descriptors') or []:
            self.descs.append((p['name'], R.parse(p['connectivity'])))
        self.remaps = {}
        for k, v in (data.get('remaps') or {}).items():
            self.remaps[canon_name(str(k))] = [(float(c), str(t))
                                               for c, t in v]
        self.smarts_descs = []
        self.smiles_descs = []
        self.unsupported = []
        for p in data.get('smarts_based_descriptors') or []:
            if p['smarts'] in SMARTS_TABLE and not p.get('useChirality'):
                self.smarts_descs.append((p['name'],
                                          SMARTS_TABLE[p['smarts']]))
            else:
                self.unsupported.append(p['smarts'])
        for p in data.get('smiles_based_descriptors') or []:
            if p['smiles'] in SMILES_TABLE and not p.get('useChirality'):
                self.smiles_descs.append((p['name'],
                                          SMILES_TABLE[p['smiles']]))
            else:
                self.unsupported.append(p['smiles'])

    def centres(self, facts):
        """per atom: list of pattern indices whose first atom it can be."""
        per = [[] for _ in range(facts.n)]
        for pi, (_, _, ast) in enumerate(self.patterns):
            for i in R.first_atoms(ast, facts):
                per[i].append(pi)
        return per

    def decompose(self, m, facts=None, clean=None):
        """-> (mapping name -> count, per-atom [(centre, periph, group)],
        fired dict).  Raises DecompositionError when some atom is matched by
        no centre pattern or by more than one."""
        facts = facts or R.Facts(m)
        per = self.centres(facts)
        for i, ps in enumerate(per):
            if len(ps) == 0:
                raise DecompositionError('no centre pattern matches', i)
            if len(ps) > 1:
                raise DecompositionError(
                    'several centre patterns match: %s' % [
                        self.patterns[p][0] for p in ps], i)
        centre = [self.patterns[ps[0]][0] for ps in per]
        periph = [self.patterns[ps[0]][1] for ps in per]
        fired = {'patterns': collections.Counter(ps[0] for ps in per),
                 'descs': collections.Counter(),
                 'remaps': collections.Counter()}
        groups = collections.Counter()
        per_atom = []
        for i in range(facts.n):
            if centre[i] == 'none':
                per_atom.append((centre[i], periph[i], 'none'))
                continue
            cnt = collections.Counter(periph[j] for j, _ in facts.nbrs[i]
                                      if periph[j] != 'none')
            name = canon(centre[i], cnt)
            groups[name] += 1
            per_atom.append((centre[i], periph[i], name))
        descs = collections.Counter()
        for name, ast in self.descs:
            embs, _ = R.search(ast, facts)
            n = len(set(frozenset(e) for e in embs))
            if n:
                descs[name] += n
                fired['descs'][name] += n
        if self.smarts_descs:
            # matched against the normalised molecule (explicit H, Kekule
            # form except the rings the Benson perception made aromatic)
            g = plain_graph(m)
            for name, (zs, bonds) in self.smarts_descs:
                n = count_atom_sets(g, zs, bonds)
                if n:
                    descs[name] += n
                    fired['descs'][name] += n
        if self.smiles_descs:
            # matched against the molecule as RDKit reads the SMILES: no
            # explicit hydrogens, RDKit's own aromaticity
            g = plain_graph(clean)
            for name, (zs, bonds) in self.smiles_descs:
                n = count_atom_sets(g, zs, bonds)
                if n:
                    descs[name] += n
                    fired['descs'][name] += n
        out = collections.defaultdict(float)
        for table in (groups, descs):
            for name, n in table.items():
                if name in self.remaps:
                    fired['remaps'][name] += 1
                    for coef, target in self.remaps[name]:
                        out[target] += n * coef
                else:
                    out[name] += n
        # the remapped name shown per atom (first target), as the code does
        per_atom = [(c, p, self.remaps[g][0][1] if g in self.remaps else g)
                    for (c, p, g) in per_atom]
        return dict(out), per_atom, fired
