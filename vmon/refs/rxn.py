"""Independent reference for RING reaction rules (C09 corpus, C16, C17).

  gen_rule(rng)           rule AST from edit templates (balanced or not)
  render_rule(ast, rng)   AST -> text
  balance(ast)            per-label electron balance (all zero <=> readable)
  apply(ast, mol, emb)    the declared graph edit applied to an embedding
  graph_of(mols)          labelled graph of RDKit molecule(s) for isomorphism
"""
import copy

from rdkit import Chem

from vmon.refs import ring as R

ORDER = {'single': 1, 'double': 2, 'triple': 3}
BT = {1: Chem.BondType.SINGLE, 2: Chem.BondType.DOUBLE,
      3: Chem.BondType.TRIPLE, 4: Chem.BondType.QUADRUPLE}


def frag(atoms, bonds, name='r1'):
    """atoms: list of (symbol, suffix); bonds: (i, j, kind)."""
    return {'prefix': {'charge': None, 'sat': None, 'cyc': None},
            'name': name, 'labels': ['x%d' % i for i in range(len(atoms))],
            'stereo': [], 'bonds': list(bonds),
            'atoms': [{'type': {'prefix': None, 'symbol': s, 'suffix': x},
                       'label': 'x%d' % i, 'constraints': []}
                      for i, (s, x) in enumerate(atoms)]}


# edit templates: (description, atoms, bonds, edits)
def templates():
    T = []
    for X in ('C', 'O'):
        T.append(('%s-H scission' % X, [(X, None), ('H', None)],
                  [(1, 0, 'single')],
                  [('break', 0, 1, None), ('rad+', 0), ('rad+', 1)]))
        T.append(('%s-H scission, typed break' % X, [(X, None), ('H', None)],
                  [(1, 0, 'single')],
                  [('rad+', 0), ('break', 0, 1, 'single'), ('rad+', 1)]))
    T.append(('C-C scission', [('C', None), ('C', None)], [(1, 0, 'single')],
              [('break', 0, 1, None), ('rad+', 0), ('rad+', 1)]))
    T.append(('C-O scission', [('C', None), ('O', None)], [(1, 0, 'single')],
              [('break', 0, 1, None), ('rad+', 0), ('rad+', 1)]))
    T.append(('C=C to C-C diradical', [('C', None), ('C', None)],
              [(1, 0, 'double')],
              [('dec', 0, 1), ('rad+', 0), ('rad+', 1)]))
    T.append(('C=O to C-O diradical', [('C', None), ('O', None)],
              [(1, 0, 'double')],
              [('dec', 0, 1), ('rad+', 0), ('rad+', 1)]))
    T.append(('diradical recombination to C=C', [('C', '.'), ('C', '.')],
              [(1, 0, 'single')],
              [('inc', 0, 1), ('rad-', 0), ('rad-', 1)]))
    T.append(('radical recombination C. + O. in one molecule',
              [('C', '.'), ('C', None), ('O', '.')],
              [(1, 0, 'single'), (2, 1, 'single')],
              [('form', 0, 2, None), ('rad-', 0), ('rad-', 2)]))
    T.append(('beta scission', [('C', '.'), ('C', None), ('C', None)],
              [(1, 0, 'single'), (2, 1, 'single')],
              [('break', 1, 2, None), ('inc', 0, 1), ('rad-', 0),
               ('rad+', 2)]))
    T.append(('beta scission C-H', [('C', '.'), ('C', None), ('H', None)],
              [(1, 0, 'single'), (2, 1, 'single')],
              [('break', 1, 2, 'single'), ('inc', 0, 1), ('rad-', 0),
               ('rad+', 2)]))
    T.append(('1,2-H shift', [('C', '.'), ('C', None), ('H', None)],
              [(1, 0, 'single'), (2, 1, 'single')],
              [('break', 1, 2, None), ('form', 0, 2, None), ('rad-', 0),
               ('rad+', 1)]))
    T.append(('dehydrogenation to C=C',
              [('C', None), ('C', None), ('H', None), ('H', None)],
              [(1, 0, 'single'), (2, 0, 'single'), (3, 1, 'single')],
              [('break', 0, 2, None), ('break', 1, 3, None), ('inc', 0, 1),
               ('form', 2, 3, 'single')]))
    T.append(('dehydrogenation to C=O',
              [('C', None), ('O', None), ('H', None), ('H', None)],
              [(1, 0, 'single'), (2, 0, 'single'), (3, 1, 'single')],
              [('break', 0, 2, None), ('break', 1, 3, None),
               ('modify', 0, 1, 'double'), ('form', 2, 3, None)]))
    T.append(('C=C double to triple with H2 loss',
              [('C', None), ('C', None), ('H', None), ('H', None)],
              [(1, 0, 'double'), (2, 0, 'single'), (3, 1, 'single')],
              [('break', 0, 2, None), ('break', 1, 3, None), ('inc', 0, 1),
               ('form', 2, 3, None)]))
    T.append(('modify double to single + radicals', [('C', None), ('C', None)],
              [(1, 0, 'double')],
              [('modify', 0, 1, 'single'), ('rad+', 0), ('rad+', 1)]))
    T.append(('triple to double + radicals', [('C', None), ('C', None)],
              [(1, 0, 'triple')],
              [('dec', 0, 1), ('rad+', 0), ('rad+', 1)]))
    T.append(('break double bond to carbenes', [('C', None), ('C', None)],
              [(1, 0, 'double')],
              [('break', 0, 1, 'double'), ('rad+', 0), ('rad+', 0),
               ('rad+', 1), ('rad+', 1)]))
    T.append(('set radicals: C-H scission',
              [('C', None), ('H', None)], [(1, 0, 'single')],
              [('break', 0, 1, None), ('radset', 0, 1), ('radset', 1, 1)]))
    T.append(('set radicals on a radical centre: C.-H to carbene',
              [('C', '.'), ('H', None)], [(1, 0, 'single')],
              [('break', 0, 1, None), ('radset', 0, 2), ('rad+', 1)]))
    T.append(('set radicals to zero: diradical recombination',
              [('C', '.'), ('C', '.')], [(1, 0, 'single')],
              [('inc', 0, 1), ('radset', 0, 0), ('radset', 1, 0)]))
    T.append(('decrease order of a single bond (homolysis)',
              [('C', None), ('C', None)], [(1, 0, 'single')],
              [('dec', 0, 1), ('rad+', 0), ('rad+', 1)]))
    T.append(('decrease order of a single C-H bond',
              [('C', None), ('H', None)], [(1, 0, 'single')],
              [('rad+', 1), ('dec', 0, 1), ('rad+', 0)]))
    T.append(('double bond decreased twice (to carbenes)',
              [('C', None), ('C', None)], [(1, 0, 'double')],
              [('dec', 0, 1), ('dec', 0, 1), ('rad+', 0), ('rad+', 0),
               ('rad+', 1), ('rad+', 1)]))
    T.append(('single bond increased twice (to triple)',
              [('C', ':'), ('C', ':')], [(1, 0, 'single')],
              [('inc', 0, 1), ('inc', 0, 1), ('rad-', 0), ('rad-', 0),
               ('rad-', 1), ('rad-', 1)]))
    T.append(('O-O scission by decrease', [('O', None), ('O', None)],
              [(1, 0, 'single')],
              [('dec', 0, 1), ('rad+', 0), ('rad+', 1)]))
    # edit sequences that do not commute (the order written is the order
    # applied)
    T.append(('break double then form single on the same pair',
              [('C', None), ('C', None)], [(1, 0, 'double')],
              [('break', 0, 1, 'double'), ('form', 0, 1, 'single'),
               ('rad+', 0), ('rad+', 1)]))
    T.append(('set radicals to 2 then decrease',
              [('C', '.'), ('H', None)], [(1, 0, 'single')],
              [('radset', 0, 2), ('rad-', 0)]))
    T.append(('increase then modify to triple',
              [('C', ':.'), ('C', ':.')], [(1, 0, 'single')],
              [('inc', 0, 1), ('modify', 0, 1, 'triple'), ('rad-', 0),
               ('rad-', 0), ('rad-', 0), ('rad-', 1), ('rad-', 1),
               ('rad-', 1)]))
    T.append(('break C-H then form C-H elsewhere (1,2-shift, ordered)',
              [('C', '.'), ('C', None), ('H', None)],
              [(1, 0, 'single'), (2, 1, 'single')],
              [('rad+', 1), ('break', 1, 2, 'single'), ('form', 2, 0, None),
               ('rad-', 0)]))
    T.append(('ring opening of a C-C ring bond', [('C', None), ('C', None)],
              [(1, 0, 'single')],
              [('break', 0, 1, None), ('rad+', 0), ('rad+', 1)]))
    # pattern bonds of UNSPECIFIED order (any / nonring / strong) with
    # increase / decrease edits: the matches of one rule have mixed orders
    T.append(('any-bond diradical: increase order', [('C', '.'), ('C', '.')],
              [(1, 0, 'any')],
              [('inc', 0, 1), ('rad-', 0), ('rad-', 1)]))
    T.append(('nonring bond: decrease order', [('C', None), ('C', None)],
              [(1, 0, 'nonring')],
              [('dec', 0, 1), ('rad+', 0), ('rad+', 1)]))
    T.append(('any bond C~O: decrease order', [('C', None), ('O', None)],
              [(1, 0, 'any')],
              [('dec', 0, 1), ('rad+', 0), ('rad+', 1)]))
    T.append(('ring bond: decrease order', [('C', None), ('C', None)],
              [(1, 0, 'ring')],
              [('dec', 0, 1), ('rad+', 0), ('rad+', 1)]))
    T.append(('strong bond: decrease order', [('C', None), ('C', None)],
              [(1, 0, 'strong')],
              [('dec', 0, 1), ('rad+', 0), ('rad+', 1)]))
    return T


_KIND = {1: 'single', 2: 'double', 3: 'triple'}
_RADSFX = {0: None, 1: '.', 2: ':', 3: ':.'}


def systematic_templates():
    """Every bond edit on every bond order, with the radical compensation
    that balances it: pairs X-Y in {C-C, C-O, C-H, O-H}, pattern order k,
    edit in {typed break, decrease x j, increase x j, modify to k'}."""
    out = []
    for (x, y, kmax) in (('C', 'C', 3), ('C', 'O', 2), ('C', 'H', 1),
                         ('O', 'H', 1), ('O', 'O', 1)):
        for k in range(1, kmax + 1):
            bonds = [(1, 0, _KIND[k])]
            plain = [(x, None), (y, None)]

            def comp(delta):
                # delta > 0: electrons released -> radicals increase
                op = 'rad+' if delta > 0 else 'rad-'
                return [(op, 0)] * abs(delta) + [(op, 1)] * abs(delta)
            out.append(('%s-%s order %d: typed break' % (x, y, k), plain,
                        bonds, [('break', 0, 1, _KIND[k])] + comp(k)))
            for j in range(1, k + 1):
                out.append(('%s-%s order %d: decrease x%d' % (x, y, k, j),
                            plain, bonds, [('dec', 0, 1)] * j + comp(j)))
            for k2 in range(1, kmax + 1):
                if k2 < k:
                    out.append(('%s-%s order %d: modify to %d' % (x, y, k,
                                                                  k2),
                                plain, bonds,
                                [('modify', 0, 1, _KIND[k2])] + comp(k - k2)))
                elif k2 > k:
                    d = k2 - k
                    rad = [(x, _RADSFX[d]), (y, _RADSFX[d])]
                    out.append(('%s-%s order %d: modify to %d' % (x, y, k,
                                                                  k2),
                                rad, bonds,
                                comp(-d) + [('modify', 0, 1, _KIND[k2])]))
                    out.append(('%s-%s order %d: increase x%d' % (x, y, k,
                                                                  d),
                                rad, bonds, [('inc', 0, 1)] * d + comp(-d)))
    return out


_ATYPE = {None: (0, 0), '.': (1, 0), ':': (2, 0), '+': (0, 1), '-': (0, -1),
          '+.': (1, 1), '-.': (1, -1)}


def has_charge_edit(ast):
    return any(e[0] in ('chg+', 'chg-', 'atype') for e in ast['edits'])


def charge_templates():
    """Rules with formal-charge edits ('increase / decrease formal charge',
    'modify atomtype (a, X+)').  Which of them the reader accepts is NOT
    judged (the property's balance clause speaks of bond and radical edits);
    every radical compensation from -2..+2 is offered and the accepted ones
    are judged on what they do to the molecule."""
    out = []
    for sym in ('C', 'O'):
        for sfx in (None, '.', '+', '-'):
            for chg in ('chg+', 'chg-'):
                for comp in (-2, -1, 0, 1, 2):
                    op = 'rad+' if comp > 0 else 'rad-'
                    edits = [(chg, 0)] + [(op, 0)] * abs(comp)
                    out.append(('charge: %s%s %s rad%+d' % (
                        sym, sfx or '', chg, comp), [(sym, sfx)], [], edits))
            for tgt in (None, '.', ':', '+', '-', '+.', '-.'):
                if tgt == sfx:
                    continue
                # (refused as 'not supported' by the reader at the pinned
                # commit: offered so that a reader that starts accepting
                # them gets its edits judged)
                for comp in (0,):
                    op = 'rad+' if comp > 0 else 'rad-'
                    edits = [('atype', 0, tgt, sym)] + [(op, 0)] * abs(comp)
                    out.append(('atomtype: %s%s -> %s%s rad%+d' % (
                        sym, sfx or '', sym, tgt or '', comp), [(sym, sfx)],
                        [], edits))
    # charge edits next to bond edits, on the 2nd / 3rd pattern atom
    for comp_h in (0, 1):
        out.append(('charge: O-H break, H charged rad%+d' % comp_h,
                    [('C', None), ('O', None), ('H', None)],
                    [(1, 0, 'single'), (2, 1, 'single')],
                    [('break', 1, 2, None), ('rad+', 1), ('chg+', 2)] +
                    [('rad+', 2)] * comp_h))
    out.append(('charge: C-C break, cation + radical pair',
                [('C', None), ('C', None), ('C', None)],
                [(1, 0, 'single'), (2, 1, 'single')],
                [('break', 1, 2, None), ('chg+', 2), ('rad+', 1)]))
    out.append(('charge: C+ captured to radical', [('C', None), ('C', '+')],
                [(1, 0, 'single')], [('chg-', 1), ('rad+', 1)]))
    out.append(('charge: O- to O radical', [('C', None), ('O', '-')],
                [(1, 0, 'single')], [('chg+', 1), ('rad+', 1)]))
    out.append(('charge: O- to O radical (other sign)',
                [('C', None), ('O', '-')],
                [(1, 0, 'single')], [('chg+', 1), ('rad-', 1)]))
    return [t for t in out if _radicals_stay_nonnegative(t)]


def _radicals_stay_nonnegative(t):
    _, atoms, _, edits = t
    r = [{'.': 1, ':': 2, '+.': 1, '-.': 1}.get(x, 0) for _, x in atoms]
    for e in edits:
        if e[0] == 'rad+':
            r[e[1]] += 1
        elif e[0] == 'rad-':
            r[e[1]] -= 1
        elif e[0] == 'atype':
            r[e[1]] = _ATYPE[e[2]][0]
        if min(r) < 0:
            return False
    return True


def random_template(rng):
    """A random reactant fragment (2-4 atoms over C/O/H) with a random
    sequence of 1-4 bond edits (each pair is broken / formed / modified at
    most once; increase / decrease may repeat), balanced automatically by
    radical edits: atoms that gain electrons get 'rad+' edits, atoms that
    lose electrons get a radical suffix in the pattern and 'rad-' edits."""
    n = rng.randint(2, 4)
    syms = [rng.choice(['C', 'C', 'O'])]
    bonds = []
    order = {}
    for i in range(1, n):
        heavy = [j for j in range(i) if syms[j] != 'H']
        j = rng.choice(heavy)
        sym = rng.choice(['C', 'C', 'O', 'H', 'H'])
        k = 1
        if sym != 'H' and rng.random() < 0.3:
            k = rng.choice([2, 2, 3]) if sym == 'C' and syms[j] == 'C' \
                else 2
        syms.append(sym)
        bonds.append((i, j, _KIND[k]))
        order[(j, i)] = k
    touched = set()
    edits = []
    cur = dict(order)
    for _ in range(rng.randint(1, 4)):
        op = rng.choice(['break', 'form', 'inc', 'dec', 'modify', 'inc',
                         'dec'])
        bonded = [p for p, k in cur.items() if k > 0]
        if op == 'break':
            c = [p for p in bonded if p not in touched and
                 cur[p] == order.get(p)]
            if not c:
                continue
            p = rng.choice(c)
            kind = _KIND[cur[p]]
            edits.append(('break', p[0], p[1],
                          None if kind == 'single' and rng.random() < 0.5
                          else kind))
            cur[p] = 0
            touched.add(p)
        elif op == 'form':
            c = [(a, b) for a in range(n) for b in range(a + 1, n)
                 if cur.get((a, b), 0) == 0 and (a, b) not in touched
                 and (a, b) not in order]
            if not c:
                continue
            p = rng.choice(c)
            k = 1 if 'H' in (syms[p[0]], syms[p[1]]) else rng.choice([1, 1,
                                                                      2])
            edits.append(('form', p[0], p[1],
                          None if k == 1 and rng.random() < 0.5
                          else _KIND[k]))
            cur[p] = k
            touched.add(p)
        elif op == 'inc':
            c = [p for p in bonded if cur[p] < 3 and
                 'H' not in (syms[p[0]], syms[p[1]]) and
                 (p not in touched or p in order and cur[p] != 0)]
            c = [p for p in c if not any(e[0] in ('break', 'form', 'modify')
                                         and (min(e[1], e[2]),
                                              max(e[1], e[2])) == p
                                         for e in edits)]
            if not c:
                continue
            p = rng.choice(c)
            edits.append(('inc', p[0], p[1]))
            cur[p] += 1
        elif op == 'dec':
            c = [p for p in bonded if not any(
                e[0] in ('break', 'form', 'modify') and
                (min(e[1], e[2]), max(e[1], e[2])) == p for e in edits)]
            if not c:
                continue
            p = rng.choice(c)
            edits.append(('dec', p[0], p[1]))
            cur[p] -= 1
        else:
            c = [p for p in bonded if p not in touched and
                 cur[p] == order.get(p) and
                 'H' not in (syms[p[0]], syms[p[1]])]
            if not c:
                continue
            p = rng.choice(c)
            k2 = rng.choice([k for k in (1, 2, 3) if k != cur[p]])
            edits.append(('modify', p[0], p[1], _KIND[k2]))
            cur[p] = k2
            touched.add(p)
    if not edits:
        return None
    atoms = [(s, None) for s in syms]
    ast = {'reactant': frag(atoms, bonds), 'edits': edits}
    bal = balance(ast)
    if any(b < -3 for b in bal):
        return None
    rad_edits = []
    for i, b in enumerate(bal):
        if b > 0:
            rad_edits += [('rad+', i)] * b
        elif b < 0:
            atoms[i] = (syms[i], _RADSFX[-b])
            rad_edits += [('rad-', i)] * (-b)
    rng.shuffle(rad_edits)
    for e in rad_edits:
        edits.insert(rng.randint(0, len(edits)), e)
    return ('random: ' + ' '.join(e[0] for e in edits), atoms, bonds, edits)


def gen_rule(rng, unbalanced=False):
    pick = None
    if rng.random() < 0.4:
        for _ in range(8):
            pick = random_template(rng)
            if pick is not None:
                break
    desc, atoms, bonds, edits = pick or rng.choice(templates() +
                                                   systematic_templates())
    edits = list(edits)
    kind = 'balanced'
    if unbalanced:
        how = rng.choice(['drop', 'double'])
        k = rng.randrange(len(edits))
        if how == 'drop' and len(edits) > 1:
            del edits[k]
        else:
            edits.insert(k, edits[k])
            how = 'double'
        kind = 'unbalanced (%s edit %d)' % (how, k)
    rng.shuffle(edits) if rng.random() < 0.3 and not any(
        e[0] in ('inc', 'dec', 'modify', 'form', 'break') for e in edits) \
        else None
    return {'name': rng.choice(['rule1', 'r', 'Hab_1']), 'desc': desc,
            'kind': kind, 'reactant': frag(atoms, bonds,
                                           rng.choice(['r1', 'A', 'mol_1'])),
            'edits': edits}


def render_edit(e, labels, rng=None):
    def sp():
        return '' if rng is None else rng.choice(['', ' ', '  '])
    a = labels[e[1]]
    op = e[0]
    if op in ('break', 'form'):
        b = labels[e[2]]
        return '%s %sbond%s(%s%s,%s%s%s)' % (
            op, (e[3] + ' ') if e[3] else '', sp(), sp(), a, sp(), b, sp())
    if op == 'modify':
        return 'modify bond%s(%s,%s%s,%s%s)' % (sp(), a, sp(), labels[e[2]],
                                                sp(), e[3])
    if op in ('inc', 'dec'):
        return '%s bond order%s(%s,%s%s)' % (
            'increase' if op == 'inc' else 'decrease', sp(), a, sp(),
            labels[e[2]])
    if op in ('rad+', 'rad-'):
        return '%s number of radical%s(%s%s)' % (
            'increase' if op == 'rad+' else 'decrease', sp(), a, sp())
    if op == 'radset':
        return 'modify number of radical%s(%s,%s%d)' % (sp(), a, sp(), e[2])
    if op in ('chg+', 'chg-'):
        return '%s formal charge%s(%s)' % (
            'increase' if op == 'chg+' else 'decrease', sp(), a)
    if op == 'atype':
        return 'modify atomtype%s(%s,%s%s%s)' % (sp(), a, sp(), e[3],
                                                 e[2] or '')
    raise ValueError(op)


def render_rule(ast, rng=None):
    frag_text = R.render(ast['reactant'], rng, relabel=False)
    # 'fragment NAME {' -> 'reactant NAME {'
    head, rest = frag_text.split('fragment', 1)
    body = head + 'reactant' + rest
    labels = ast['reactant']['labels']
    sep = ' ' if rng is None else rng.choice([' ', '\n', '\n    ', '  '])
    return 'rule %s%s{%s%s%s%s%s}' % (
        ast['name'], '' if rng is None else rng.choice(['', ' ']), sep, body,
        sep, sep.join(render_edit(e, labels, rng) for e in ast['edits']),
        sep)


def pattern_radicals(at):
    return {'.': 1, ':': 2, ':.': 3, '+.': 1, '-.': 1}.get(at['suffix'], 0)


def balance(ast):
    """Per-label electron balance: form -order, break +order, increase -1,
    decrease +1, radical +1 -> -1, radical -1 -> +1, set n -> -(n - current),
    charge +1 -> -1, charge -1 -> +1."""
    n = len(ast['reactant']['atoms'])
    bal = [0] * n
    cur = {}
    for (i, j, kind) in ast['reactant']['bonds']:
        cur[(min(i, j), max(i, j))] = ORDER.get(kind)
    rad = [pattern_radicals(a['type']) for a in ast['reactant']['atoms']]
    for e in ast['edits']:
        op = e[0]
        if op in ('form', 'break'):
            o = ORDER[e[3] or 'single']
            s = -o if op == 'form' else o
            bal[e[1]] += s
            bal[e[2]] += s
        elif op == 'modify':
            key = (min(e[1], e[2]), max(e[1], e[2]))
            d = ORDER[e[3]] - cur[key]
            bal[e[1]] -= d
            bal[e[2]] -= d
        elif op == 'inc':
            bal[e[1]] -= 1
            bal[e[2]] -= 1
        elif op == 'dec':
            bal[e[1]] += 1
            bal[e[2]] += 1
        elif op == 'rad+':
            bal[e[1]] -= 1
        elif op == 'rad-':
            bal[e[1]] += 1
        elif op == 'radset':
            bal[e[1]] -= e[2] - rad[e[1]]
        elif op == 'chg+':
            bal[e[1]] -= 1
        elif op == 'chg-':
            bal[e[1]] += 1
    return bal


# --------------------------------------------------------- graph semantics
def graph_of(mols):
    """networkx labelled graph of one molecule or an iterable of fragments
    (explicit atoms only: reactants were AddHs'ed)."""
    import networkx as nx
    g = nx.Graph()
    off = 0
    if isinstance(mols, Chem.Mol):
        mols = [mols]
    for m in mols:
        for a in m.GetAtoms():
            g.add_node(off + a.GetIdx(), z=a.GetAtomicNum(),
                       q=a.GetFormalCharge(), r=a.GetNumRadicalElectrons())
        for b in m.GetBonds():
            g.add_edge(off + b.GetBeginAtomIdx(), off + b.GetEndAtomIdx(),
                       o=b.GetBondTypeAsDouble())
        off += m.GetNumAtoms()
    return g


def apply(ast, mol_h, emb):
    """The declared edit applied to embedding `emb` (tuple of atom indices of
    mol_h, which already carries explicit H) -> labelled graph, or
    ('error', reason) if an edit is not applicable to this molecule."""
    g = graph_of(mol_h)
    for e in ast['edits']:
        op = e[0]
        a = emb[e[1]]
        if op in ('break', 'form', 'modify', 'inc', 'dec'):
            b = emb[e[2]]
        if op == 'break':
            if not g.has_edge(a, b):
                return ('error', 'break of a missing bond')
            g.remove_edge(a, b)
        elif op == 'form':
            if g.has_edge(a, b):
                return ('error', 'form of an existing bond')
            g.add_edge(a, b, o=float(ORDER[e[3] or 'single']))
        elif op == 'modify':
            if not g.has_edge(a, b):
                return ('error', 'modify of a missing bond')
            g[a][b]['o'] = float(ORDER[e[3]])
        elif op == 'inc':
            if not g.has_edge(a, b):
                return ('error', 'increase of a missing bond')
            g[a][b]['o'] += 1.0
        elif op == 'dec':
            if not g.has_edge(a, b):
                return ('error', 'decrease of a missing bond')
            g[a][b]['o'] -= 1.0
            if g[a][b]['o'] <= 0:
                g.remove_edge(a, b)
        elif op == 'rad+':
            g.nodes[a]['r'] += 1
        elif op == 'rad-':
            g.nodes[a]['r'] -= 1
        elif op == 'radset':
            g.nodes[a]['r'] = e[2]
        elif op == 'chg+':
            g.nodes[a]['q'] += 1
        elif op == 'chg-':
            g.nodes[a]['q'] -= 1
        elif op == 'atype':
            g.nodes[a]['r'], g.nodes[a]['q'] = _ATYPE[e[2]]
    return g


def isomorphic(g1, g2):
    import networkx as nx
    from networkx.algorithms.isomorphism import categorical_node_match, \
        numerical_edge_match
    if g1.number_of_nodes() != g2.number_of_nodes() or \
            g1.number_of_edges() != g2.number_of_edges():
        return False
    return nx.is_isomorphic(
        g1, g2, node_match=categorical_node_match(['z', 'q', 'r'],
                                                  [0, 0, 0]),
        edge_match=numerical_edge_match('o', 1.0))


def signature(g):
    """Cheap isomorphism-invariant key (WL hash on labels)."""
    import networkx as nx
    h = g.copy()
    for n, d in h.nodes(data=True):
        d['lab'] = '%d/%d/%d' % (d['z'], d['q'], d['r'])
    for u, v, d in h.edges(data=True):
        d['lab'] = '%.1f' % d['o']
    return nx.weisfeiler_lehman_graph_hash(h, node_attr='lab',
                                           edge_attr='lab', iterations=4)
