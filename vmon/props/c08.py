"""C08 -- RING fragment matching returns exactly the embeddings it denotes.

Monitor kind: reference model (refs/ring.py: brute-force interpreter of the
generator's AST) beside Read(text).GetQueryMatches(mol); metamorphic
re-rendering (layout, label names) must not change the result.
"""
import random
import itertools

from rdkit import Chem

from vmon.core.obs import observe
from vmon.refs import ring as R
from vmon.gen import molecules

TECHNIQUE = ('runtime monitoring: reference-model oracle (independent '
             'brute-force RING interpreter on the generator AST) + '
             'metamorphic re-rendering (whitespace, label names)')
RULE = ('fragments: random ASTs of 1-5 (thorough 1-8) atoms covering every '
        'symbol class, prefix, suffix, bond kind, ring closure, constraint '
        'form, operator, negation and molecule prefix (1-3 constraints per '
        'atom); bounded-exhaustive: all 1-atom fragments with <=1 constraint '
        'and all 2-atom fragments without constraint over a reduced alphabet '
        '(quick: a 1/N sample of that enumeration, thorough: all); molecules: '
        'exhaustive C/O/N up to 3 heavy atoms with radicals, charged species, '
        'curated rings/aromatics/heteroaromatics/bicyclics/Pt species, in '
        'aromatic and Kekule form. Non-trivial = a (fragment, molecule) pair '
        'whose real and reference match sets were compared and are not both '
        'empty, or a pair decided empty by an atom constraint / bond kind / '
        'molecule prefix after a non-empty skeleton match; distinct by '
        '(text, molecule).'
        ' Also: double-bond stereo statements (a-c=d-b skeletons x '
        'cis/trans/notspecified x negation) on E/Z molecules; fragments '
        'that mention rings additionally on 18 ring-rich molecules (chain '
        'bond between rings, spiro, bridged, fused). '
        ' '
        'Rounds 17-19: copies / pickles of query objects held to the'
        ' denotation (where the object can be cloned); shared query and'
        ' molecule objects from four threads.')
ASSUMPTIONS = [
    'molecule facts (ring membership, SSSR ring sizes, aromatic flags, '
    'charges, radical electrons, bond types) are RDKit input, not under test',
    'match sets above RDKit\'s maxMatches=10000 are not generated; label '
    'names are identifiers that are not reserved words; the * suffix carries '
    'no verdict; the allylic prefix means "the atom has a double bond" (pinned '
    'by the repository\'s test_atom_prefix3); a stereo statement relates the '
    'two named substituents through RDKit\'s E/Z flag and its reference atoms',
]
CONFIG = {
    'shards': {'quick': 16, 'thorough': 16},
    'min_nontrivial': {'quick': 8000, 'thorough': 150000},
    'timeout': {'quick': 900, 'thorough': 10800},
}
ANCHORS = [
    'pgradd.RINGParser.MolQueryRead:MolQueryReader.ReadAtomType',
    'pgradd.RINGParser.MolQueryRead:MolQueryReader.ReadSymbols',
    'pgradd.RINGParser.MolQueryRead:MolQueryReader.ReadAtomSuffix',
    'pgradd.RINGParser.MolQueryRead:MolQueryReader.ReadAtomPrefix',
    'pgradd.RINGParser.MolQueryRead:MolQueryReader.ReadBondTypeBondedAtom',
    'pgradd.RINGParser.MolQueryRead:MolQueryReader.'
    'ReadAtomConstraintConnectivity',
    'pgradd.RINGParser.MolQueryRead:MolQueryReader.ReadAtomConstraintRing',
    'pgradd.RINGParser.MolQueryRead:MolQueryReader.ReadAtomConstraintNRing',
    'pgradd.RINGParser.MolQueryRead:MolQueryReader.ReadAtomConstraintRadical',
    'pgradd.RINGParser.MolQueryRead:MolQueryReader.ReadRingBond',
    'pgradd.RINGParser.MolQueryRead:MolQueryReader.ReadMolQueryPrefix',
    'pgradd.RDkitWrapper.MolQuery:ConstraintNumber.__call__',
    'pgradd.RDkitWrapper.MolQuery:BondQuery.__call__',
    'pgradd.RDkitWrapper.MolQuery:AtomConnectivityAtom.__call__',
    'pgradd.RDkitWrapper.MolQuery:AtomRing.__call__',
    'pgradd.RDkitWrapper.MolQuery:AtomNRing.__call__',
    'pgradd.RDkitWrapper.MolQuery:AtomRadical.__call__',
    'pgradd.RDkitWrapper.MolQuery:MolCharge.__call__',
    'pgradd.RDkitWrapper.MolQuery:MolQuery.GetQueryMatches',
]
LARGER = [
    'c1ccccc1', 'C1=CC=CC=C1', 'Cc1ccccc1', 'c1ccncc1', 'c1ccoc1', 'c1ccsc1',
    'c1ccc2ccccc2c1', 'C1CC2CCC1C2', 'C1CCC2(C1)CCCC2', 'C1CC2CC12',
    'C1CC1', 'C1CCC1', 'C1CCCC1', 'C1CCCCC1', 'C1CCCCCC1', 'C1=CCCCC1',
    'O=C1CCCO1', 'C1COCCO1', 'CC(C)(C)C', 'CC=CC#C', 'C=C=C', 'C=C=O',
    'C([Pt])C[Pt]', 'C(=O)([Pt])O', '[Pt]C([Pt])C([Pt])([Pt])C=O',
    '[H][Pt]', 'O[Pt]', '[Ru]C([Ru])C', '[NH3+]CC([O-])=O', '[CH2]',
    '[CH]', 'C[CH]', '[CH2][CH2]', '[CH2+][CH2-]', 'C[N+](=O)[O-]',
    '[C-]#[O+]', 'CS', 'CSC', 'OP(O)(O)=O', 'c1cc[nH]c1', 'Oc1ccccc1',
    'c1ccc(cc1)-c1ccccc1', 'C1CC1C1CC1', 'N#N', '[O][O]', 'OO',
    'CC(=O)OC', 'C1=CC=CC1', 'C1CC=CC=C1', '[CH3+]', '[CH3-]', 'C[O-]',
    '[OH-]', '[OH3+]', '[NH4+]', 'C=[OH+]', '[O-][N+]#C', 'C[C]C',
    'c1ccc2c(c1)ccc1ccccc21', 'C1=CC2=CC=CC=C2C=C1', '[CH]1C=C1',
    'N->[Pt]', 'O->[Pt]',
    # some hydrogens explicit (isotope labels), the others implicit
    '[2H]C', '[3H]CC=O', '[2H]O', '[2H]C([2H])C', '[2H]OC', '[2H][2H]',
]
_MOLS = {}


def mol_pool(tier):
    if tier in _MOLS:
        return _MOLS[tier]
    smis = molecules.enumerate_small(3, ('C', 'O', 'N'), max_radicals=2)
    if tier == 'thorough':
        smis += [s for s in molecules.enumerate_small(4, ('C', 'O'),
                                                      max_radicals=1)
                 if s not in smis]
    out = []
    seen = set()
    for s in smis + molecules.CHARGED + LARGER:
        m = Chem.MolFromSmiles(s)
        if m is None:
            continue
        c = Chem.MolToSmiles(m)
        if c in seen:
            continue
        seen.add(c)
        out.append((s, 'as parsed', m))
    # Kekule forms of aromatic molecules (the scheme feeds these)
    for s, how, m in list(out):
        if any(a.GetIsAromatic() for a in m.GetAtoms()):
            k = Chem.Mol(m)
            try:
                Chem.Kekulize(k, clearAromaticFlags=True)
                out.append((s, 'kekulized', k))
            except Exception:
                pass
    _MOLS[tier] = out
    return out


def get_mol(smi, how):
    m = Chem.MolFromSmiles(smi)
    if how == 'kekulized':
        Chem.Kekulize(m, clearAromaticFlags=True)
    return m


_FACTS = {}


def facts_of(mol):
    k = id(mol)
    if k not in _FACTS:
        if len(_FACTS) > 5000:
            _FACTS.clear()
        _FACTS[k] = (mol, R.Facts(Chem.AddHs(mol)))
    return _FACTS[k][1]


def ast_key(ast):
    return repr((ast['prefix'], [(a['type'], a['constraints'])
                                 for a in ast['atoms']], ast['bonds']))


def skeleton(ast):
    """The same fragment without constraints / with 'any' bonds and '?'
    suffixes: used only to decide whether an empty result is non-trivial."""
    sk = {'prefix': {'charge': None, 'sat': None, 'cyc': None},
          'name': 'sk', 'labels': list(ast['labels']), 'stereo': [],
          'atoms': [{'type': {'prefix': None,
                              'symbol': a['type']['symbol'], 'suffix': '?'},
                     'label': a['label'], 'constraints': []}
                    for a in ast['atoms']],
          'bonds': [(i, j, 'any') for i, j, _ in ast['bonds']]}
    return sk


_QUERIES = {'n': 0}


def check_pair(ctx, ast, text, smi, how, mol, alt_texts=()):
    from pgradd.RINGParser import Read
    case = {'text': text, 'smiles': smi, 'form': how, 'ast': ast}
    # ONE query object per fragment text serves all its molecules, as a
    # scheme uses its patterns (a query that is only right on first use is
    # seen on the second molecule); every 7th pair reads the text afresh.
    _QUERIES['n'] += 1
    if _QUERIES.get('text') == text and _QUERIES['n'] % 7:
        ro = {'ok': _QUERIES['q']}
        ctx.count('pairs_on_a_reused_query_object')
        case['reused_query_object'] = True
    else:
        ro = observe(Read, text)
        if 'ok' in ro:
            _QUERIES['text'], _QUERIES['q'] = text, ro['ok']
    ctx.evals()
    if 'exc' in ro:
        ctx.violation('valid fragment not readable (%s)%s' % (
            ro['exc'], ' [lowercase symbol]' if any(
                a['type']['symbol'][0].islower() for a in ast['atoms'])
            else ''), case, {'msg': ro['msg']})
        return 'unreadable'
    q = ro['ok']
    mo = observe(q.GetQueryMatches, mol)
    ctx.evals()
    if 'exc' in mo:
        ctx.violation('GetQueryMatches raised %s' % mo['exc'], case,
                      {'msg': mo['msg']})
        return 'raised'
    got_t = tuple(tuple(int(i) for i in t) for t in mo['ok'])
    got = set(got_t)
    if len(got) != len(got_t):
        ctx.violation('returned matches contain duplicates', case,
                      {'n': len(got_t), 'distinct': len(got)})
        return 'dup'
    facts = facts_of(mol)
    want, nov = R.match(ast, mol, facts=facts)
    if nov:
        ctx.skip('construct without independent meaning (%s)' % nov[0])
        return 'noverdict'
    if len(want) >= 10000 or len(got_t) >= 10000:
        ctx.skip('above the 10000-embedding cap')
        return 'cap'
    if got != want:
        extra = sorted(got - want)[:3]
        missing = sorted(want - got)[:3]
        ctx.violation(mismatch_sig(ast, extra, missing), case,
                      {'returned_but_violating': extra,
                       'satisfying_but_omitted': missing,
                       'n_real': len(got), 'n_reference': len(want)})
        return 'mismatch'
    # the query object's copies / unpickled copies (where the object can be
    # cloned at all) return the same embeddings
    if _QUERIES['n'] % 5 == 0:
        from vmon.core import clones
        made, failed = clones.make(q)
        for label, why in failed:
            ctx.skip('%s of a fragment query not possible (%s)' % (label,
                                                                   why))
        for label, qc in made:
            co = observe(qc.GetQueryMatches, mol)
            ctx.evals()
            got_c = None if 'exc' in co else set(
                tuple(int(i) for i in t) for t in co['ok'])
            if got_c != want:
                ctx.violation('a %s of the query object does not return the '
                              'denoted embeddings' % label, case,
                              {'outcome': co.get('exc', 'other matches'),
                               'n_clone': None if got_c is None
                               else len(got_c), 'n_reference': len(want)})
                return 'clone'
            ctx.count('query_object_clones_held_to_the_denotation')
    # metamorphic: other layout / labels
    for t2 in alt_texts:
        r2 = observe(lambda: tuple(tuple(int(i) for i in t)
                                   for t in Read(t2).GetQueryMatches(mol)))
        ctx.evals()
        if 'exc' in r2 or set(r2['ok']) != got:
            ctx.violation('layout / label names change the result', case,
                          {'other_text': t2,
                           'got': repr(r2.get('ok', r2.get('exc')))[:200]})
            return 'layout'
        ctx.count('rerender_relations')
    # the SAME molecule object edited in place (one hydrogen-bearing carbon
    # made a radical centre -- no atom added or removed) and asked again with
    # the same query object
    if _QUERIES['n'] % 9 == 0 and not case.get('edited'):
        try:
            rw = Chem.RWMol(mol)
            first = observe(q.GetQueryMatches, rw)
            tgt = [a for a in rw.GetAtoms() if a.GetAtomicNum() == 6 and
                   a.GetTotalNumHs() > 0 and a.GetNumRadicalElectrons() == 0]
            if 'ok' in first and tgt:
                a = tgt[0]
                nh = a.GetTotalNumHs()
                a.SetNoImplicit(True)
                a.SetNumExplicitHs(nh - 1)
                a.SetNumRadicalElectrons(1)
                rw.UpdatePropertyCache(strict=False)
                second = observe(q.GetQueryMatches, rw)
                ctx.evals()
                frozen = Chem.Mol(rw)
                want2, nov2 = R.match(ast, frozen, facts=R.Facts(
                    Chem.AddHs(frozen)))
                if not nov2 and len(want2) < 10000:
                    got2 = set(tuple(int(i) for i in t)
                               for t in second.get('ok', ()))
                    if 'exc' in second or got2 != want2:
                        ctx.violation('match set after the molecule object '
                                      'was edited in place differs from the '
                                      'denotation on the edited molecule',
                                      dict(case, edited='C-H -> C. at atom %d'
                                           % a.GetIdx()),
                                      {'n_real': len(got2),
                                       'n_reference': len(want2),
                                       'raised': second.get('exc')})
                        return 'edited'
                    ctx.count('molecules_edited_in_place_and_requeried')
        except Exception:
            pass
    if got:
        ctx.nontrivial([text, smi, how])
        ctx.count('pairs_with_matches')
    else:
        sk, _ = R.match(skeleton(ast), mol, facts=facts)
        if sk:
            ctx.nontrivial([text, smi, how])
            ctx.count('pairs_emptied_by_constraints')
        else:
            ctx.count('pairs_trivially_empty')
    return 'ok'


def mismatch_sig(ast, extra, missing):
    """Mechanism-level signature of a disagreement."""
    feats = set()
    for a in ast['atoms']:
        for c in a['constraints']:
            f = c['kind'] + (' negated' if c['neg'] else '')
            if c['kind'] == 'conn' and c['type']['symbol'][0].islower():
                f += ' lowercase target'
            feats.add(f)
        if a['type']['symbol'][0].islower():
            feats.add('lowercase symbol')
    for k in ('charge', 'sat', 'cyc'):
        if ast['prefix'][k]:
            feats.add('mol prefix ' + k)
    for st in ast.get('stereo') or []:
        feats.add('stereo %s%s' % ('negated ' if st['neg'] else '',
                                   st['type']))
    return 'match set differs from the denotation (%s; %s)' % (
        'omits' if missing and not extra else 'returns violating'
        if extra and not missing else 'both',
        ', '.join(sorted(feats)) or 'no constraint')


# ------------------------------------------------------- bounded-exhaustive
BE_SYMBOLS = ['C', 'O', 'H', '$', 'X']
BE_SUFFIX = [None, '?', '.', '+']
BE_PREFIX = [None, 'ringatom', 'nonaromatic']
BE_OPS = [None, '=', '>', '<', '>=', '<=']


def be_types():
    for s, x, p in itertools.product(BE_SYMBOLS, BE_SUFFIX, BE_PREFIX):
        yield {'prefix': p, 'symbol': s, 'suffix': x}


def be_constraints():
    yield None
    for neg in (False, True):
        for sym in ('C', 'H', 'O', '$'):
            for bond in (None, 'double', 'any'):
                tt = {'prefix': None, 'symbol': sym, 'suffix': '?'}
                yield {'kind': 'conn', 'neg': neg, 'op': None, 'n': None,
                       'type': tt, 'bond': bond}
                for op in BE_OPS:
                    for n in (0, 1, 2):
                        yield {'kind': 'conn', 'neg': neg, 'op': op, 'n': n,
                               'type': tt, 'bond': bond}
        for kind, ns in (('ringsize', (3, 4, 6)), ('nring', (0, 1, 2)),
                         ('radical', (0, 1, 2))):
            for op in BE_OPS:
                for n in ns:
                    yield {'kind': kind, 'neg': neg, 'op': op, 'n': n}


def be_fragments():
    """All 1-atom fragments with <=1 constraint, then all 2-atom fragments
    without constraint, over the reduced alphabet."""
    for t in be_types():
        for c in be_constraints():
            yield frag([t], [], [[c] if c else []])
    for t1 in be_types():
        for t2 in be_types():
            for kind in R.BOND_KINDS:
                yield frag([t1, t2], [(1, 0, kind)], [[], []])


def frag(types, bonds, cons):
    return {'prefix': {'charge': None, 'sat': None, 'cyc': None},
            'name': 'be', 'labels': ['l%d' % i for i in range(len(types))],
            'stereo': [], 'bonds': list(bonds),
            'atoms': [{'type': t, 'label': 'l%d' % i, 'constraints': c}
                      for i, (t, c) in enumerate(zip(types, cons))]}


STEREO_MOLS = [r'C/C=C\C', r'C/C=C/C', 'CC=CC', r'C/C=C(/C)CC', r'C/C=C(\C)CC',
               r'CC/C(C)=C(/C)CC', r'C/C=C\C=C/C', r'C/C=C/C=C\C', 'C1=CCCCC1',
               r'C1=C\CCCCCC/1', r'O/C=C/C', r'O/C=C\C', 'CC(C)=CC',
               r'C/C=C/O', 'C=CC', r'[CH2]/C=C/C', r'C/C(O)=C(/C)O']
_STEREO = {}


def stereo_pool():
    if not _STEREO:
        out = []
        for s_ in STEREO_MOLS + molecules.stereo_alkenes()[::9]:
            m = Chem.MolFromSmiles(s_)
            if m is not None:
                out.append((s_, 'as parsed', m))
        _STEREO['p'] = out
    return _STEREO['p']


def stereo_fragment(rng):
    """a-c=d-b (+ optional e on c, f on d) with one or two stereo statements
    'x [!]cis|trans|notspecified to y for double bond between c and d'."""
    def t(sym):
        return {'prefix': None, 'symbol': sym,
                'suffix': None if sym == 'H' else rng.choice(['?', '?', None])}
    subs = ['C', 'C', 'H', '$', 'X', 'O']
    types = [t(rng.choice(subs)), t('C'), t('C'), t(rng.choice(subs))]
    bonds = [(1, 0, 'single'), (2, 1, 'double'), (3, 2, 'single')]
    on_c, on_d = [0], [3]
    if rng.random() < 0.5:
        types.append(t(rng.choice(subs)))
        bonds.append((len(types) - 1, 1, 'single'))
        on_c.append(len(types) - 1)
    if rng.random() < 0.5:
        types.append(t(rng.choice(subs)))
        bonds.append((len(types) - 1, 2, 'single'))
        on_d.append(len(types) - 1)
    ast = frag(types, bonds, [[] for _ in types])
    for _ in range(rng.choice([1, 1, 2])):
        x, y = rng.choice(on_c), rng.choice(on_d)
        c, d = (1, 2) if rng.random() < 0.5 else (2, 1)
        if rng.random() < 0.5:
            x, y = y, x
        ast['stereo'].append({'a': x, 'b': y, 'c': c, 'd': d,
                              'neg': rng.random() < 0.3,
                              'type': rng.choice(['cis', 'trans', 'cis',
                                                  'trans', 'notspecified'])})
    return ast


RINGRICH = ['C1CC1C1CC1', 'c1ccc(cc1)-c1ccccc1', 'C1CC2CC12',
            'C1CCC2(C1)CCCC2', 'C1CC2CCC1C2', 'C1CC1CC1CC1', 'C1CC1=C1CC1',
            'c1ccccc1C1CC1', 'C1CC1OC1CC1', 'C1CCC(CC1)C1CCCC1', 'C1CC1C=C',
            'C1=CC1C1CC1', 'c1ccc2ccccc2c1', 'C1CC2(C1)CC2', 'O1CC1C1CO1',
            'C1CC1[CH]C1CC1', 'C1CC1C(=O)C1CC1', 'c1ccoc1-c1ccco1',
            # rings closed THROUGH a metal atom (an adsorbate bridging one
            # surface atom twice) and through two metal atoms
            'C1C[Pt]1', '[Pt]1OCC1', 'C1C[Ru]1', 'CC1C[Pt]1', 'C1CC[Pt]1',
            '[Pt]1C=C1', 'O1C[Pt]1', 'C1[Pt][Pt]1', 'C1C[Pt][Pt]1',
            'C1C[Pt]1C1C[Pt]1',
            # macrocycles: ring sizes of two digits
            'C1CCCCCCCCC1', 'C1CCCCCCCCCCC1', 'C1CCCCCCCCCCCCCC1',
            'O=C1CCCCCCCCCCC1', 'C1CCCCCCCCCC1C1CC1', 'C1CCCCCCCCCOC1']
_RR = {}


def ringrich_pool():
    if not _RR:
        out = []
        for s_ in RINGRICH:
            m = Chem.MolFromSmiles(s_)
            if m is not None:
                out.append((s_, 'as parsed', m))
        _RR['p'] = out
    return _RR['p']


def ring_sensitive(ast):
    """Does the fragment say anything about rings (bond kinds ring/nonring,
    ring-size / ring-count constraints, ringatom prefixes, cyclic prefix)?"""
    if any(k in ('ring', 'nonring') for _, _, k in ast['bonds']):
        return True
    if ast['prefix'].get('cyc'):
        return True
    for a in ast['atoms']:
        if a['type']['prefix'] in ('ringatom', 'nonringatom'):
            return True
        for c in a['constraints']:
            if c['kind'] in ('ringsize', 'nring'):
                return True
            if c['kind'] == 'conn' and (c.get('bond') in ('ring', 'nonring')
                                        or c['type']['prefix'] in (
                                            'ringatom', 'nonringatom')):
                return True
    return False


def check_threads(ctx, key=None, rounds=3):
    """Matching is a function of (fragment, molecule): query objects and
    molecule objects shared by four threads that match at the same time give
    every thread the match lists a lone call gives (which the ordinary
    workload judges against the denotation)."""
    from vmon.core import threads as TH
    from pgradd.RINGParser import Read
    key = key or 'thr%d_%d' % (ctx.seed, ctx.shard)
    r = random.Random('c08thr:%s' % key)
    pool = mol_pool('quick')
    frs = []
    while len(frs) < (8 if ctx.tier == 'quick' else 30):
        ast = R.gen_fragment(r, max_atoms=4)
        frs.append(R.render(ast, r))
    mols = r.sample(pool, 6) + r.sample(ringrich_pool(), 3)

    def make_jobs():
        jobs = []
        for fi, text in enumerate(frs):
            try:
                q = Read(text)
            except Exception:
                continue
            for smi, how, mol in mols:
                def thunk(q=q, mol=mol):
                    return repr(sorted(tuple(int(i) for i in t)
                                       for t in q.GetQueryMatches(mol)))
                jobs.append(((fi, smi, how), thunk))
        return jobs
    res = TH.stress(make_jobs, nthreads=4, rounds=rounds)
    TH.judge(ctx, res, 'fragment matching on shared query and molecule '
             'objects', {'what': 'thread stress', 'key': key})


def run_shard(ctx):
    pool = mol_pool(ctx.tier)
    ctx.notes['molecule_pool'] = len(pool)
    if ctx.shard % 4 == 0:
        check_threads(ctx)
    small = [x for x in pool if x[2].GetNumHeavyAtoms() <= 3]
    r = ctx.sub_rng('c08', ctx.shard)
    # 1. random fragments
    nfrag = 700 if ctx.tier == 'quick' else 12000
    maxat = 5 if ctx.tier == 'quick' else 8
    for k in range(nfrag):
        ast = R.gen_fragment(r, max_atoms=maxat)
        if r.random() < 0.08:      # lowercase symbol without suffix
            a = r.choice(ast['atoms'])
            a['type'] = {'prefix': None, 'symbol': r.choice(['c', 'n', 'o']),
                         'suffix': None}
        text = R.render(ast, r)
        alts = [R.render(ast, r)] if k % 4 == 0 else []
        mols = r.sample(pool, 6) + r.sample(
            [x for x in pool if x[2].GetNumHeavyAtoms() > 3], 4)
        if ring_sensitive(ast):
            # whatever the fragment says about rings is put to molecules in
            # which ring atoms, ring bonds and ring counts come apart (chain
            # bonds between rings, spiro, bridged, fused)
            mols += r.sample(ringrich_pool(), 6)
            ctx.count('ring_sensitive_fragments_on_ring_rich_molecules')
        for smi, how, mol in mols:
            res = check_pair(ctx, ast, text, smi, how, mol, alts)
            if res in ('unreadable',):
                break
        if k < 3:
            ctx.sample({'fragment': text, 'molecules': [m[0] for m in mols]})
    # 1b. fragments with double-bond stereo statements on E/Z molecules
    sp = stereo_pool()
    for k in range(40 if ctx.tier == 'quick' else 600):
        ast = stereo_fragment(r)
        text = R.render(ast, r)
        for smi, how, mol in r.sample(sp, 8):
            res = check_pair(ctx, ast, text, smi, how, mol)
            if res == 'unreadable':
                break
            if res is None or res == 'ok':
                ctx.count('stereo_statement_pairs')
    # 2. bounded-exhaustive enumeration
    stride = 24 if ctx.tier == 'quick' else 1
    n_enum = 0
    for i, ast in enumerate(be_fragments()):
        n_enum += 1
        if (i // 1) % stride != (ctx.seed % stride) and stride > 1:
            continue
        if not ctx.mine(i // stride):
            continue
        text = R.render(ast)
        mols = r.sample(small, 3) + r.sample(pool, 2)
        if ring_sensitive(ast):
            mols += r.sample(ringrich_pool(), 4)
        for smi, how, mol in mols:
            if check_pair(ctx, ast, text, smi, how, mol) == 'unreadable':
                break
        ctx.count('bounded_exhaustive_fragments')
    ctx.notes['bounded_exhaustive_enumeration_size'] = n_enum
    ctx.notes['bounded_exhaustive_stride'] = stride


def replay(ctx, case):
    if case.get('what') == 'thread stress':
        return check_threads(ctx, case['key'], rounds=12)
    ast = case['ast']
    ast['bonds'] = [tuple(b) for b in ast['bonds']]
    check_pair(ctx, ast, case['text'], case['smiles'], case['form'],
               get_mol(case['smiles'], case['form']))


def classify(v):
    return None


LEVEL_TEXT = ('Held on every executed (fragment, molecule) pair: random '
              'grammar-covering fragments and a bounded-exhaustive family '
              '(thorough: complete) against exhaustive small molecules and '
              'curated ring/aromatic/charged/metal species; the real match '
              'tuple is compared with an independent brute-force '
              'interpreter of the AST, and re-rendered text must give the '
              'same result. Exploration beyond the enumerated bounds.')
