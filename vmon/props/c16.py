"""C16 -- a RING reaction rule applies exactly its declared edit per match.

Monitor kind: reference model (refs/rxn.py: electron balance per label and a
graph-edit applier; embeddings from the reference matcher of C08) beside
Read(rule_text) and ReactionQuery.RunReactants(mol); products compared as
multisets of labelled graphs up to isomorphism.
"""
import random
import collections

from rdkit import Chem

from vmon.core.obs import observe
from vmon.refs import ring as R
from vmon.refs import rxn as X
from vmon.gen import molecules

TECHNIQUE = ('runtime monitoring: reference-model oracle (independent '
             'electron-balance rule + graph-edit applier on reference '
             'embeddings), products compared up to labelled-graph '
             'isomorphism')
RULE = ('unimolecular rules from 30 hand-written edit templates (incl. non-commuting edit sequences) plus random balanced edit sequences (2-4 atom fragments, 1-4 bond edits, auto-balanced by radical edits) and a systematic family (every bond edit x every bond order x C-C/C-O/C-H/O-H/O-O with balancing radical edits) (H abstraction, scissions, '
        'beta scission, 1,2-shift, recombination, bond-order increase / '
        'decrease / modify with radical compensation, dehydrogenation, set '
        'radicals) rendered with random layout, each also in unbalanced '
        'variants (one edit dropped or doubled) x small molecules and '
        'radicals (exhaustive C/O up to 3 heavy atoms, rings, curated). '
        'Non-trivial = a (rule, molecule) with >=1 embedding whose product '
        'sets were all compared with the reference graphs, or a rule whose '
        'accept/reject decision was compared with the balance; distinct by '
        '(rule text, molecule).'
        ' Also: formal-charge edits (acceptance not judged, application '
        'judged; INCONCLUSIVE if none was applied) on an ion pool. '
        ' '
        'Rounds 17-19: two (thorough: five) of twenty molecules of 11-17'
        ' heavy atoms with non-consecutive bonds, atoms renumbered at'
        ' random, per rule; copies / pickles of rule objects; rule reading'
        ' and application with one rule object per thread from four threads.')
ASSUMPTIONS = [
    'unimolecular rules; reactant groups / duplicates and constraints{} are '
    'outside the statement; WHETHER a rule with formal-charge edits is '
    'accepted is not judged (the balance clause speaks of bond and radical '
    'edits), what an accepted one does is; modify atomtype is refused by '
    'the reader as not supported (NotImplementedError) for every new type',
    'embeddings and molecule facts come from the reference matcher validated '
    'by C08; networkx decides graph isomorphism',
]
CONFIG = {
    'shards': {'quick': 16, 'thorough': 16},
    'min_nontrivial': {'quick': 4000, 'thorough': 40000},
    'required_counters': ['product_sets_compared', 'unbalanced_rules_decided',
                          'balanced_rules_read',
                          'charge_edit_product_sets_compared'],
}
ANCHORS = [
    'pgradd.RINGParser.ReactionQueryRead:ReactionQueryReader.Read',
    'pgradd.RINGParser.ReactionQueryRead:ReactionQueryReader.ReadBondBreak',
    'pgradd.RINGParser.ReactionQueryRead:ReactionQueryReader.ReadBondForm',
    'pgradd.RINGParser.ReactionQueryRead:ReactionQueryReader.'
    'ReadRadicalIncrease',
    'pgradd.RDkitWrapper.ReactionQuery:ReactionQuery.RunReactants',
    'pgradd.RDkitWrapper.ReactionQuery:BondBreak.__call__',
    'pgradd.RDkitWrapper.ReactionQuery:BondForm.__call__',
    'pgradd.RDkitWrapper.ReactionQuery:BondIncrease.__call__',
    'pgradd.RDkitWrapper.ReactionQuery:BondDecrease.__call__',
    'pgradd.RDkitWrapper.ReactionQuery:BondModify.__call__',
    'pgradd.RDkitWrapper.ReactionQuery:RadicalIncrease.__call__',
    'pgradd.RDkitWrapper.ReactionQuery:RadicalDecrease.__call__',
    'pgradd.RDkitWrapper.ReactionQuery:AtomTypeModify.__call__',
    'pgradd.RDkitWrapper.ReactionQuery:ChargeIncrease.__call__',
    'pgradd.RDkitWrapper.ReactionQuery:ChargeDecrease.__call__',
]
EXTRA = ['[2H]C', '[3H]CC=O', '[2H]O', '[2H]C([2H])C', '[2H]OC', '[2H][CH2]',
         'C1CC1', 'C1CCC1', 'CC1CC1', 'C1CO1', 'C=CC', 'CC=CC', 'C#CC',
         '[CH2]C[CH2]', '[CH2]CO', '[CH2]CC', 'C[CH]C', '[CH2][CH2]',
         '[CH2]C[O]', 'C[CH]O', 'CCCC', 'CC(C)C', 'CCO', 'COC', 'OCCO',
         'C=CC=C', 'CC=O', '[CH2]C=C', 'C[CH][CH2]', '[CH2]C([CH2])C',
         '[CH][CH]', 'C[C][CH]', 'OO', 'COO', 'COOC', '[CH]C[CH]', '[C]C',
         '[C][C]', '[C]C[C]', 'C[C]']
_pool = {}


def mol_pool(tier):
    if tier not in _pool:
        smis = molecules.enumerate_small(3, ('C', 'O'), max_radicals=2) + \
            EXTRA
        out = []
        seen = set()
        for s in smis:
            m = Chem.MolFromSmiles(s)
            if m is None:
                continue
            c = Chem.MolToSmiles(m)
            if c not in seen:
                seen.add(c)
                out.append((c, m, R.Facts(Chem.AddHs(m))))
        _pool[tier] = out
    return _pool[tier]


IONS = ['[CH3+]', '[CH3-]', 'C[CH2+]', 'C[CH2-]', 'C[O-]', '[OH-]', 'CC[O-]',
        'C[OH2+]', '[CH2+]C[CH2]', '[CH2+]CO', '[O-]CC[O-]', 'C[CH+]C',
        'C[O+](C)C', '[CH2-]C=C', 'C[CH-]O', '[O-]C[CH2]', 'CC[CH2+]',
        '[O]C[CH2+]', '[CH2]C[O-]', 'C[O+]', '[CH2+][CH2-]']


# molecules whose heavy-atom indices reach two digits and whose bonds join
# non-consecutive indices (fused / spiro / bridged rings, macrocycles,
# branches), each also with its atoms renumbered at random: whatever a rule
# application keys by atom index is exercised with indices 0..15 in every
# combination, not only the 0..3 of the small pool
BIG = ['C1C2CCCCCCCCC2C1', 'CC1C2CCCCCCCCC2C1', 'C1CCC2(CC1)CCCCC2',
       'CC(C)CC(C)(C)CC(C)CC(C)C', 'C1CC2CCC1CC2CCCCC', 'OCC1CCC2CCCC(O)C2C1',
       'C1CCCCCCCCCCC1', 'CC(=O)CCCCC(C)CCC=C', 'C1CC1CCCCCC1CC1C',
       'O1CCOCCOCCOCC1', '[CH2]CCCCCCCCCC[CH2]', 'CCCCCCC(CCCCC)CCCC',
       'C1CC2CC3CC1CC(C2)C3CC', 'OC1CCC(CC1)C1CCC(O)CC1',
       'C=CCC1CCC(CC=C)CC1CC', 'CC1(C)CCC2(CC1)OCCO2', 'C1CCC2C(C1)CCC1CCCCC21',
       'CC[CH]CCCC1CCC(C)CC1', 'OOCCCCCCCCCCOO', 'C#CCCCCCC(C)CCC#C']


def big_pool(rng, k):
    """k (smiles, mol, facts, atom_order) entries; atom_order None = as
    parsed, else the permutation handed to RenumberAtoms."""
    out = []
    for s in rng.sample(BIG, min(k, len(BIG))):
        m = Chem.MolFromSmiles(s)
        order = None
        if rng.random() < 0.7:
            order = list(range(m.GetNumAtoms()))
            rng.shuffle(order)
            m = Chem.RenumberAtoms(m, order)
        out.append((s, m, R.Facts(Chem.AddHs(m)), order))
    return out


def charged_pool():
    if 'ions' not in _pool:
        out = []
        for s in IONS:
            m = Chem.MolFromSmiles(s)
            if m is not None:
                out.append((Chem.MolToSmiles(m), m, R.Facts(Chem.AddHs(m))))
        _pool['ions'] = out
    return _pool['ions']


def element_counts(g):
    return collections.Counter(d['z'] for _, d in g.nodes(data=True))


def check_rule(ctx, ast, rng, text=None, only=None, atom_order=None):
    from pgradd.RINGParser import Read
    text = text or X.render_rule(ast, rng)
    bal = X.balance(ast)
    balanced = all(b == 0 for b in bal)
    case = {'rule': text, 'template': ast['desc'], 'kind': ast['kind'],
            'ast': {'atoms': [[a['type']['symbol'], a['type']['suffix']]
                              for a in ast['reactant']['atoms']],
                    'bonds': [list(b) for b in ast['reactant']['bonds']],
                    'edits': [list(e) for e in ast['edits']],
                    'name': ast['name'],
                    'rname': ast['reactant']['name']}}
    o = observe(Read, text)
    ctx.evals()
    charge = X.has_charge_edit(ast)
    if charge:
        # acceptance of rules with formal-charge edits is not judged (the
        # balance clause speaks of bond and radical edits); what an accepted
        # one does to the molecule is.
        if 'exc' in o:
            ctx.count('charge_rules_refused_by_reader (%s)' % o['exc'])
            return
        ctx.count('charge_rules_read')
    elif not balanced:
        if 'ok' in o:
            ctx.violation('rule with unbalanced electrons accepted', case,
                          {'balance_per_label': bal})
            return
        if o['exc'] != 'RINGReaderError':
            ctx.violation('unbalanced rule raised %s instead of '
                          'RINGReaderError' % o['exc'], case,
                          {'msg': o['msg'], 'balance': bal})
            return
        ctx.count('unbalanced_rules_decided')
        ctx.nontrivial(['unbalanced', text])
        return
    if 'exc' in o:
        ctx.violation('balanced rule cannot be read (%s)%s' % (
            o['exc'], ' [set-radical edit]' if any(
                e[0] == 'radset' for e in ast['edits']) else ''), case,
            {'msg': o['msg'], 'balance': bal})
        return
    q = o['ok']
    if type(q).__name__ != 'ReactionQuery':
        ctx.violation('Read(rule) returned a %s' % type(q).__name__, case, {})
        return
    if not charge:
        ctx.count('balanced_rules_read')
    pool = mol_pool(ctx.tier)
    mols = rng.sample(pool, min(len(pool), 14 if ctx.tier == 'quick' else 40))
    if len(text) % 4 == 0 and not only:
        # copies / unpickled copies of the rule object (where it can be cloned
        # at all) give the product sets of the rule object
        from vmon.core import clones
        cm = [m_ for _, m_, _ in mols[:4]]
        clones.agreement(ctx, case, q, [
            ('RunReactants(molecule %d)' % k_, lambda r_, m_=m_:
             canon_products(r_.RunReactants(Chem.Mol(m_))))
            for k_, m_ in enumerate(cm)], 'reaction rule', 'before')
    if charge:
        mols = mols[:8] + charged_pool()
    mols = [tuple(x) + (None,) for x in mols]
    if not charge and len(ast['reactant']['atoms']) <= 4:
        mols += big_pool(rng, 2 if ctx.tier == 'quick' else 5)
    if only:
        m_ = Chem.MolFromSmiles(only)
        if atom_order:
            m_ = Chem.RenumberAtoms(m_, [int(x) for x in atom_order])
        mols = [(only, m_, R.Facts(Chem.AddHs(m_)), atom_order)]
    for smi, mol, facts, order in mols:
        big = mol.GetNumHeavyAtoms() >= 11
        embs, _ = R.search(ast['reactant'], facts)
        c = dict(case, smiles=smi)
        if order:
            c['atom_order'] = order
        if big and len(embs) > 400:
            ctx.skip('more than 400 matches on a big molecule (cost)')
            continue
        ro = observe(q.RunReactants, Chem.Mol(mol))
        ctx.evals()
        refs = []
        inapplicable = False
        for e in embs:
            g = X.apply(ast, facts.mol, e)
            if isinstance(g, tuple):
                inapplicable = True
                break
            refs.append(g)
        if inapplicable:
            ctx.skip('edit not applicable to this embedding (e.g. forming an '
                     'existing bond)')
            continue
        if 'exc' in ro:
            ctx.violation('RunReactants raised %s' % ro['exc'], c,
                          {'msg': ro['msg'], 'embeddings': len(embs)})
            return
        prods = ro['ok']
        if len(prods) != len(embs):
            ctx.violation('number of product sets != number of matches', c,
                          {'product_sets': len(prods), 'matches': len(embs)})
            return
        if not embs:
            ctx.count('molecules_without_match')
            continue
        react_counts = element_counts(X.graph_of(facts.mol))
        got = []
        for ps in prods:
            g = X.graph_of(list(ps))
            if element_counts(g) != react_counts:
                ctx.violation('atoms not conserved by the rule', c,
                              {'reactant': dict(react_counts),
                               'products': dict(element_counts(g))})
                return
            got.append(g)
        # multiset comparison up to isomorphism (bucketed by an isomorphism-
        # invariant hash first: big molecules have hundreds of product sets)
        buckets = {}
        for h in refs:
            buckets.setdefault(X.signature(h), []).append(h)
        for g in got:
            hit = None
            rest = buckets.get(X.signature(g), [])
            for k, h in enumerate(rest):
                if X.isomorphic(g, h):
                    hit = k
                    break
            if hit is None:
                ctx.violation('a product set is not the reactant with exactly '
                              'the declared edits', c,
                              {'product': [Chem.MolToSmiles(p)
                                           for p in prods[got.index(g)]],
                               'edits': ast['edits']})
                return
            del rest[hit]
        ctx.count('product_sets_compared', len(got))
        if big:
            ctx.count('product_sets_compared_on_molecules_of_11_or_more_'
                      'heavy_atoms', len(got))
            ctx.maximum('max_atoms_with_hydrogens', facts.mol.GetNumAtoms())
        if charge:
            ctx.count('charge_edit_product_sets_compared', len(got))
        ctx.nontrivial([text, smi])
        ctx.klass('template: ' + ast['desc'])
        if ctx.rng.random() < 0.004:
            ctx.sample({'rule': text, 'molecule': smi,
                        'matches': len(embs),
                        'first_product_set': [Chem.MolToSmiles(p)
                                              for p in prods[0]]})


def canon_products(prods):
    return repr(sorted(sorted(Chem.MolToSmiles(p) for p in ps)
                       for ps in prods))


def check_threads(ctx, key=None, rounds=3):
    """Applying a rule is a function of (rule text, molecule): four threads,
    each reading its OWN rule object from the text and running it, at the
    same time, get the product sets a lone caller gets (which the ordinary
    workload judges against the declared edits).  One rule object is not
    shared between threads here: RunReactants keeps the molecule being
    transformed on the rule object, and the statement quantifies over rules
    and molecules, not over schedules of one object (see DESIGN B.18)."""
    from vmon.core import threads as TH
    from pgradd.RINGParser import Read
    key = key or 'thr%d_%d' % (ctx.seed, ctx.shard)
    r = random.Random('c16thr:%s' % key)
    T = X.templates() + X.systematic_templates()
    rules = []
    for desc, atoms, bonds, edits in r.sample(T, 8):
        ast = {'name': 'r', 'desc': desc, 'kind': 'balanced',
               'reactant': X.frag(atoms, bonds), 'edits': list(edits)}
        rules.append(X.render_rule(ast, r))
    pool = mol_pool(ctx.tier)
    mols = [m for _, m, _ in r.sample(pool, 5)]
    mols += [x[1] for x in big_pool(r, 1)]

    def make_jobs():
        jobs = []
        for ri, text in enumerate(rules):
            for mi, mol in enumerate(mols):
                def thunk(text=text, mol=mol):
                    return canon_products(Read(text).RunReactants(
                        Chem.Mol(mol)))
                jobs.append(((ri, mi), thunk))
        return jobs
    res = TH.stress(make_jobs, nthreads=4, rounds=rounds)
    TH.judge(ctx, res, 'rule reading and application, one rule object per '
             'thread', {'what': 'thread stress', 'key': key})


def run_shard(ctx):
    r = ctx.sub_rng('c16', ctx.shard)
    if ctx.shard % 4 == 3:
        check_threads(ctx)
    n = 500 if ctx.tier == 'quick' else 4000
    T = X.templates() + X.systematic_templates()
    CT = X.charge_templates()
    for k, (desc, atoms, bonds, edits) in enumerate(CT):
        if ctx.mine(k):
            check_rule(ctx, {'name': 'q%d' % k, 'desc': desc,
                             'kind': 'charge', 'reactant': X.frag(atoms,
                                                                  bonds),
                             'edits': list(edits)}, r)
    for k in range(n):
        ast = X.gen_rule(r, unbalanced=(k % 3 == 2))
        if k < len(T) and ast['kind'] == 'balanced':
            # every template at least once per shard rotation
            desc, atoms, bonds, edits = T[(k + ctx.shard) % len(T)]
            ast = {'name': 'r%d' % k, 'desc': desc, 'kind': 'balanced',
                   'reactant': X.frag(atoms, bonds), 'edits': list(edits)}
        check_rule(ctx, ast, r)


def replay(ctx, case):
    from pgradd.RINGParser import Read
    if case.get('what') == 'thread stress':
        return check_threads(ctx, case['key'], rounds=10)
    o = observe(Read, case['rule'])
    if 'exc' in o:
        ctx.violation('rule not readable: %s' % o['exc'], case,
                      {'msg': o['msg']})
        return
    if 'smiles' in case:
        m0 = Chem.MolFromSmiles(case['smiles'])
        if case.get('atom_order'):
            m0 = Chem.RenumberAtoms(m0, [int(x) for x in case['atom_order']])
        prods = o['ok'].RunReactants(m0)
        print('products:', [[Chem.MolToSmiles(p) for p in ps]
                            for ps in prods])
    if 'ast' in case:
        a = case['ast']
        ast = {'name': a['name'], 'desc': case.get('template', ''),
               'kind': case.get('kind', 'balanced'),
               'reactant': X.frag([tuple(x) for x in a['atoms']],
                                  [tuple(b) for b in a['bonds']], a['rname']),
               'edits': [tuple(e) for e in a['edits']]}
        check_rule(ctx, ast, ctx.rng, text=case['rule'],
                   only=case.get('smiles'),
                   atom_order=case.get('atom_order'))
        return
    # older replay files: regenerate by template name
    for desc, atoms, bonds, edits in X.templates() + \
            X.systematic_templates() + X.charge_templates():
        if desc == case.get('template') and case.get('kind') in (
                'balanced', 'charge'):
            ast = {'name': 'r', 'desc': desc, 'kind': case['kind'],
                   'reactant': X.frag(atoms, bonds), 'edits': list(edits)}
            check_rule(ctx, ast, ctx.rng)


def classify(v):
    return None


LEVEL_TEXT = ('Held on every executed (rule, molecule): all 26 edit templates '
              'and their unbalanced variants, with random layout, on '
              'exhaustive small molecules/radicals and curated rings; '
              'acceptance is compared with an independent electron balance '
              'and every product set with the reference graph edit up to '
              'isomorphism, one set per reference embedding. Exploration over '
              'rule texts and molecules.')
