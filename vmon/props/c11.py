"""C11 -- incompatible quantities never combine; compatible ones act as numbers.

Monitor kind: reference model ((magnitude, exponent-vector) pairs with the
operator semantics of the statement) run beside every operator call, exhaustive
over dimension-class pairs x operations x magnitude classes x operand shapes.
"""
import itertools
import random
import math
import operator

import numpy as np

from vmon.core.obs import observe, is_plain_number

TECHNIQUE = ('runtime monitoring: reference-model oracle ((magnitude, exponent '
             'vector) algebra) on every operator, exhaustive over dimension '
             'pairs x operations x magnitude classes x operand shapes; '
             'result-type invariant (no quantity object with all-zero '
             'exponents)')
RULE = ('ordered pairs of 18 dimension classes (7 base, 9 derived, '
        'dimensionless number, bare zero) x 14 operations (==,!=,<,<=,>,>=,+,-,'
        '*,/,**k,neg,abs,in_units) x magnitude classes {equal,a<b,a>b,negative,'
        'zero-magnitude,both zero,tiny/huge} x shapes {scalar.scalar, array.array, '
        'array.scalar, scalar.array, number.qty, qty.number} enumerated '
        'exhaustively; magnitudes inside a class random. Non-trivial = an '
        '(operation, operand pair) whose outcome (value, exponents or '
        'exception class) was compared with the reference; distinct by '
        '(class pair, op, magnitude class, shape).'
        ' Operand forms: quantities built through 7 unit routes (unit text, '
        '1/(1/u), (u**-1)**-1, (u**2)**0.5, u*u/u, ...), a third '
        'additionally through a final negative power; arrays built as '
        'ndarray*unit and by the ArrayQuantity constructor; plain ndarrays '
        '/ lists of numbers (all zero, containing a zero, non-zero); an '
        'operand with itself; NaN magnitudes; element-wise agreement of '
        'array operators with X[i] op Y[i]; bundling and dimensional '
        'exponents must raise. '
        ' '
        'Rounds 17-19: copies / pickles of quantities under + - * / < =='
        ' **; shared operands from four threads; operand construction itself'
        ' observed.')
ASSUMPTIONS = [
    'plain-number operands are Python int/float (numpy scalars against '
    'array quantities are dispatched by numpy before the library sees them)',
    'no division by a zero magnitude; powers of non-negative magnitudes only',
]
CONFIG = {
    'shards': {'quick': 16, 'thorough': 16},
    'min_nontrivial': {'quick': 20000, 'thorough': 20000},
    'exhaustive': True,
}
ANCHORS = [
    'pgradd.Units.qty:GenericQuantity.__eq__',
    'pgradd.Units.qty:GenericQuantity.__ne__',
    'pgradd.Units.qty:GenericQuantity.__lt__',
    'pgradd.Units.qty:GenericQuantity.__le__',
    'pgradd.Units.qty:GenericQuantity.__ge__',
    'pgradd.Units.qty:GenericQuantity.__add__',
    'pgradd.Units.qty:GenericQuantity.__radd__',
    'pgradd.Units.qty:GenericQuantity.__sub__',
    'pgradd.Units.qty:GenericQuantity.__rsub__',
    'pgradd.Units.qty:GenericQuantity.__mul__',
    'pgradd.Units.qty:GenericQuantity.__rmul__',
    'pgradd.Units.qty:GenericQuantity.__pow__',
    'pgradd.Units.qty:GenericQuantity.__neg__',
    'pgradd.Units.qty:GenericQuantity.__abs__',
    'pgradd.Units.qty:GenericQuantity._build',
    'pgradd.Units.qty:GenericQuantity.in_units',
    'pgradd.Units.qty:FundamentalUnits._build',
]
# dimension classes: name -> (unit text, exponent vector)
DIMS = [
    ('length', 'm', (1, 0, 0, 0, 0, 0, 0)),
    ('mass', 'kg', (0, 1, 0, 0, 0, 0, 0)),
    ('time', 's', (0, 0, 1, 0, 0, 0, 0)),
    ('current', 'A', (0, 0, 0, 1, 0, 0, 0)),
    ('temperature', 'K', (0, 0, 0, 0, 1, 0, 0)),
    ('amount', 'mol', (0, 0, 0, 0, 0, 1, 0)),
    ('luminous', 'cd', (0, 0, 0, 0, 0, 0, 1)),
    ('energy', 'J', (2, 1, -2, 0, 0, 0, 0)),
    ('pressure', 'Pa', (-1, 1, -2, 0, 0, 0, 0)),
    ('force', 'N', (1, 1, -2, 0, 0, 0, 0)),
    ('molar energy', 'J/mol', (2, 1, -2, 0, 0, -1, 0)),
    ('molar entropy', 'J/(mol K)', (2, 1, -2, 0, -1, -1, 0)),
    ('velocity', 'm/s', (1, 0, -1, 0, 0, 0, 0)),
    ('frequency', 's^-1', (0, 0, -1, 0, 0, 0, 0)),
    ('sqrt length', 'm^0.5', (0.5, 0, 0, 0, 0, 0, 0)),
    # a genuinely fractional exponent NEXT TO an integer one (the integer
    # one is reached inexactly on some routes: 0.6 + 0.3 + 0.1)
    ('sqrt length x mass', 'm^0.5 kg', (0.5, 1, 0, 0, 0, 0, 0)),
    ('number', None, None),
    ('bare zero', None, None),
]
MAGS = ['equal', 'a<b', 'a>b', 'negative', 'zero-magnitude', 'tiny/huge',
        'both zero']
SHAPES = ['scalar.scalar', 'array.array', 'array.scalar', 'scalar.array']
BINOPS = {'==': operator.eq, '!=': operator.ne, '<': operator.lt,
          '<=': operator.le, '>': operator.gt, '>=': operator.ge,
          '+': operator.add, '-': operator.sub, '*': operator.mul,
          '/': operator.truediv}
ORDER = ('<', '<=', '>', '>=')
ZERO7 = (0,) * 7


def magnitudes(rng, klass, n):
    """n-element magnitude lists (a, b) of a class."""
    def pos():
        return round(rng.uniform(0.5, 9.0), 3)
    a, b = [], []
    for _ in range(n):
        if klass == 'equal':
            x = pos()
            a.append(x)
            b.append(x)
        elif klass == 'a<b':
            x = pos()
            a.append(x)
            b.append(x + pos())
        elif klass == 'a>b':
            x = pos()
            b.append(x)
            a.append(x + pos())
        elif klass == 'negative':
            a.append(-pos())
            b.append(rng.choice([-1, 1]) * pos())
        elif klass == 'zero-magnitude':
            a.append(pos() * rng.choice([1, -1]))
            b.append(0.0)
        elif klass == 'both zero':
            a.append(0.0)
            b.append(0.0)
        else:
            a.append(pos() * 1e-12)
            b.append(pos() * 1e12)
    return a, b


ROUTES = ['unit text', '1/(1/u)', '(1/u)**-1', '(u**-1)**-1', '(u**2)**0.5',
          'u*u/u', "text '(u)^-1' ** -1"]


def unit_by_route(unit, route):
    """The same unit quantity reached through different operations: the
    exponent vectors must compare equal whatever produced them (negative
    zeros, float round-off of 0.5*2, ...)."""
    from pgradd.Units import eval_qty
    u = eval_qty(unit)
    if unit == 'm^0.5 kg':
        # the fractional factor exactly, the integer factor through decimal
        # fractions that sum to 1 only up to round-off on odd routes
        kg = eval_qty('kg')
        m5 = eval_qty('m^0.5')
        # (left to right, so that the fractional exponent is present in the
        # very multiplication in which the other one reaches its integer)
        if route % 2:
            return m5 * kg ** 0.6 * kg ** 0.3 * kg ** 0.1
        if route % 4 == 2:
            return kg ** 0.7 * m5 * kg ** 0.3
        return u
    r = ROUTES[route % len(ROUTES)]
    if r == 'unit text':
        return u
    if r == '1/(1/u)':
        return 1 / (1 / u)
    if r == '(1/u)**-1':
        return (1 / u) ** -1
    if r == '(u**-1)**-1':
        return (u ** -1) ** -1
    if r == '(u**2)**0.5':
        return (u ** 2) ** 0.5
    if r == 'u*u/u':
        return u * u / u
    return eval_qty('(%s)^-1' % unit) ** -1


def make(mags, dim, shape_is_array, as_int=False, via_ctor=False, route=0):
    """Build the real operand.  dim = (name, unit, vec)."""
    name, unit, vec = dim
    if name == 'bare zero':
        return 0 if as_int else 0.0
    if name == 'number':
        if shape_is_array:
            # a plain array / list of numbers as operand
            return list(mags) if via_ctor else np.array(mags, dtype=float)
        return mags[0]
    u = unit_by_route(unit, route)
    if shape_is_array:
        if via_ctor:
            # the documented constructor: a bundle of scalar quantities
            from pgradd.Units import ArrayQuantity
            return ArrayQuantity([m * u for m in mags])
        return np.array(mags, dtype=float) * u
    return mags[0] * u


def unpack(x):
    """(magnitude(s), exps or None, is_quantity_object)."""
    from pgradd.Units import Quantity, ArrayQuantity
    if isinstance(x, Quantity):
        return x.value, tuple(float(e) for e in x.units.exps), True
    if isinstance(x, ArrayQuantity):
        return np.asarray(x.view(np.ndarray), dtype=float), \
            tuple(float(e) for e in x._units.exps), True
    return x, None, False


def same_vec(u, v):
    return all(abs(float(p) - float(q)) < 1e-9 for p, q in zip(u, v))


def vals_close(got, want):
    try:
        g = np.asarray(got, dtype=float)
        w = np.asarray(want, dtype=float)
    except Exception:
        return False
    if g.shape != w.shape:
        try:
            g, w = np.broadcast_arrays(g, w)
        except Exception:
            return False
        if np.asarray(got).shape != w.shape:
            return False
    return bool(np.all(np.abs(g - w) <= 1e-12 * np.abs(w) + 1e-300) or
                np.array_equal(g, w))


def check_pair(ctx, key, da, db, mclass, shape, ma, mb):
    arr_a = shape in ('array.array', 'array.scalar')
    arr_b = shape in ('array.array', 'scalar.array')
    ctor = sum(map(ord, ''.join(map(str, key)))) % 2 == 1
    hk = sum(map(ord, ''.join(map(str, key))))
    ra, rb = hk % len(ROUTES), (hk // 7 + len(ma) + int(abs(ma[0]) * 1000)) \
        % len(ROUTES)
    # plain-number arrays: one that merely CONTAINS a zero is not the bare
    # zero (class a<b), an all-zero one is (classes zero-magnitude / both zero)
    if mclass == 'a<b':
        if da[0] == 'number' and arr_a:
            ma = [0.0] + list(ma[1:])
        if db[0] == 'number' and arr_b:
            mb = [0.0] + list(mb[1:])
    oa = observe(make, ma, da, arr_a, via_ctor=ctor, route=ra)
    ob = observe(make, mb, db, arr_b, as_int=(len(key) % 2 == 0),
                 via_ctor=not ctor, route=rb)
    for o_, d_, m_ in ((oa, da, ma), (ob, db, mb)):
        if 'exc' in o_:
            ctx.violation('building a quantity (magnitude times unit / array '
                          'constructor) raised %s' % o_['exc'],
                          {'class': d_[0], 'unit': d_[1], 'magnitudes': m_,
                           'shape': shape, 'key': key},
                          {'msg': o_['msg']})
            return
    A, B = oa['ok'], ob['ok']
    ctx.klass('unit routes: %s | %s' % (ROUTES[ra], ROUTES[rb]))
    a_is_q = da[2] is not None
    b_is_q = db[2] is not None
    if not (a_is_q or b_is_q):
        return
    for name, X, isq, dim in (('a', A, a_is_q, da), ('b', B, b_is_q, db)):
        if isq and not unpack(X)[2]:
            ctx.violation('magnitude * unit of a dimensional unit is not a '
                          'quantity object', {'unit': dim[1], 'class': dim[0]},
                          {'got': repr(X)[:120]})
            return
    va = np.array(ma) if (arr_a and (a_is_q or da[0] == 'number')) else (
        0.0 if da[0] == 'bare zero' else ma[0])
    vb = np.array(mb) if (arr_b and (b_is_q or db[0] == 'number')) else (
        0.0 if db[0] == 'bare zero' else mb[0])
    from pgradd.Units import eval_qty
    if a_is_q:
        va = va * _si(da[1])
    if b_is_q:
        vb = vb * _si(db[1])
    # the same quantity once more, arrived at through a NEGATIVE POWER as
    # the last step (leaves negative zeros in the unused exponent slots);
    # its observed SI magnitude (1 ulp from the nominal one) is the operand
    tail = None
    if hk % 3 == 0:
        tail = [('(1/q)**-1', lambda q: (1 / q) ** -1),
                ('(1/(q*q))**-0.5', lambda q: (1 / (q * q)) ** -0.5)][hk % 2]
        if tail[0].endswith('-0.5') and (np.any(np.asarray(va) < 0) or
                                         np.any(np.asarray(vb) < 0)):
            tail = None
    if tail is not None:
        done = []
        for nm, X, isq, v in (('a', A, a_is_q, va), ('b', B, b_is_q, vb)):
            if not isq or np.any(np.asarray(v) == 0):
                done.append((X, v))
                continue
            with np.errstate(all='ignore'):
                o = observe(tail[1], X)
            val = unpack(o['ok'])[0] if 'ok' in o else None
            if 'exc' in o or not unpack(o['ok'])[2] or \
                    not vals_close(val, v):
                ctx.violation('%s of a quantity is not that quantity'
                              % tail[0], {'unit': (da if nm == 'a'
                                                   else db)[1]},
                              {'got': repr(o.get('ok', o.get('exc')))[:160],
                               'want_magnitude': repr(v)[:80]})
                return
            done.append((o['ok'], np.asarray(val, dtype=float) if np.ndim(
                val) else float(val)))
        (A, va), (B, vb) = done
        ctx.klass('operand route tail: ' + tail[0])
    veca = da[2] if a_is_q else ZERO7
    vecb = db[2] if b_is_q else ZERO7
    bare_a = (not a_is_q) and bool(np.all(np.asarray(va) == 0.0))
    bare_b = (not b_is_q) and bool(np.all(np.asarray(vb) == 0.0))
    if (not a_is_q and np.ndim(va)) or (not b_is_q and np.ndim(vb)):
        ctx.klass('plain array operand (%s)' % (
            'all zero' if (bare_a or bare_b) else 'contains a zero'
            if mclass == 'a<b' else 'non-zero'))
    compatible = (a_is_q and b_is_q and same_vec(veca, vecb)) or \
        (a_is_q and bare_b) or (b_is_q and bare_a)
    case = {'a': [da[0], da[1], ma], 'b': [db[0], db[1], mb],
            'mclass': mclass, 'shape': shape, 'key': key,
            'routes': [ROUTES[ra], ROUTES[rb]]}

    if a_is_q and hk % 5 == 0:
        # copies / unpickled copies of a quantity are that quantity: the same
        # results, the same refusals
        from vmon.core import clones

        def res_(x):
            if isinstance(x, (bool, np.bool_)):
                return repr(bool(x))
            if isinstance(x, np.ndarray) and x.dtype == bool:
                return repr(x.tolist())
            return canon(x)
        clones.agreement(ctx, case, A, [
            ('a + b', lambda a_: res_(a_ + B)),
            ('b - a', lambda a_: res_(B - a_)),
            ('a * b', lambda a_: res_(a_ * B)),
            ('a / b', lambda a_: res_(a_ / B)),
            ('a < b', lambda a_: res_(a_ < B)),
            ('a == b', lambda a_: res_(a_ == B)),
            ('a ** 2', lambda a_: res_(a_ ** 2))], 'quantity', 'after')

    def judge(op, o, want_kind, want_val=None, want_vec=None):
        ctx.evals()
        c = dict(case, op=op)
        tag = '%s [%s]' % (op, shape if 'array' in shape else 'scalar')
        if want_kind == 'UnitsError':
            if 'ok' in o:
                ctx.violation('incompatible operands combined by %s%s' % (
                    tag, ' (zero-magnitude operand)'
                    if mclass == 'zero-magnitude' else ''), c,
                    {'returned': repr(o['ok'])[:160]})
            elif o['exc'] != 'UnitsError':
                ctx.violation('incompatible operands: %s raised %s instead of '
                              'UnitsError' % (tag, o['exc']), c,
                              {'msg': o['msg']})
            else:
                ctx.nontrivial(key + [op])
            return
        if 'exc' in o:
            ctx.violation('%s raised %s on admissible operands' % (
                tag, o['exc']), c, {'msg': o['msg']})
            return
        r = o['ok']
        if want_kind == 'bool':
            try:
                got = np.asarray(r, dtype=bool)
            except Exception:
                ctx.violation('%s returned a non-boolean' % tag, c,
                              {'returned': repr(r)[:160]})
                return
            want = np.asarray(want_val, dtype=bool)
            if want.shape == () and got.shape != ():
                okv = bool(np.all(got == want))
            else:
                okv = got.shape == want.shape and bool(np.all(got == want))
            if not okv:
                ctx.violation('%s disagrees with the SI magnitudes%s' % (
                    tag, ' (zero-magnitude operand)'
                    if mclass == 'zero-magnitude' else ''), c,
                    {'got': repr(r)[:120], 'want': repr(want_val)[:120]})
                return
            ctx.nontrivial(key + [op])
            return
        val, exps, isq = unpack(r)
        dimless = all(abs(float(x)) < 1e-9 for x in want_vec)
        if isq and exps is not None and all(abs(e) < 1e-9 for e in exps):
            ctx.violation('%s returned a quantity object with all-zero '
                          'exponents' % tag, c, {'returned': repr(r)[:160]})
            return
        if dimless != (not isq):
            ctx.violation('%s: %s' % (tag, 'quantity returned although all '
                                      'exponents cancel' if dimless else
                                      'plain number returned for a '
                                      'dimensional result'), c,
                          {'returned': repr(r)[:160]})
            return
        if isq and not same_vec(exps, want_vec):
            ctx.violation('%s: exponents of the result are wrong' % tag, c,
                          {'got': exps, 'want': want_vec})
            return
        if not vals_close(val, want_val):
            ctx.violation('%s: magnitude of the result is wrong' % tag, c,
                          {'got': repr(val)[:120],
                           'want': repr(want_val)[:120]})
            return
        ctx.nontrivial(key + [op])

    with np.errstate(all='ignore'):
        for op, fn in BINOPS.items():
            o = observe(fn, A, B)
            if op == '==':
                if compatible:
                    judge(op, o, 'bool', va == vb)
                else:
                    judge(op, o, 'bool', False)
            elif op == '!=':
                if compatible:
                    judge(op, o, 'bool', va != vb)
                else:
                    judge(op, o, 'bool', True)
            elif op in ORDER:
                if compatible:
                    judge(op, o, 'bool', fn(va, vb))
                else:
                    judge(op, o, 'UnitsError')
            elif op in ('+', '-'):
                if compatible:
                    judge(op, o, 'value', fn(va, vb),
                          veca if a_is_q else vecb)
                else:
                    judge(op, o, 'UnitsError')
            elif op == '*':
                judge(op, o, 'value', va * vb,
                      tuple(p + q for p, q in zip(veca, vecb)))
            elif op == '/':
                if np.any(np.asarray(vb) == 0):
                    continue
                judge(op, o, 'value', va / vb,
                      tuple(p - q for p, q in zip(veca, vecb)))
        if a_is_q:
            # an operand combined with ITSELF (the very same object) and a
            # NaN magnitude: still the operation on the SI magnitudes
            for op in ('==', '!=', '<', '<=', '>', '>='):
                judge(op + ' (same object)', observe(BINOPS[op], A, A),
                      'bool', BINOPS[op](va, va))
            judge('+ (same object)', observe(operator.add, A, A), 'value',
                  va + va, veca)
            judge('- (same object)', observe(operator.sub, A, A), 'value',
                  va - va, veca)
            N = make([float('nan')] * len(ma), da, arr_a, via_ctor=False)
            vn = va * float('nan')
            judge('== (NaN magnitude, same object)',
                  observe(operator.eq, N, N), 'bool', vn == vn)
            judge('!= (NaN magnitude, same object)',
                  observe(operator.ne, N, N), 'bool', vn != vn)
            judge('neg', observe(operator.neg, A), 'value', -va, veca)
            judge('abs', observe(abs, A), 'value', abs(va), veca)
            for k in (2, -1, 0.5, 0, 3):
                base = np.abs(va)
                if np.any(base == 0) and k < 0:
                    continue
                Aabs = abs(A)
                judge('**%s' % k, observe(operator.pow, Aabs, k), 'value',
                      base ** k, tuple(p * k for p in veca))
            if b_is_q:
                # a dimensional exponent has no meaning: never a value
                for lab, o in (('quantity ** quantity',
                                observe(operator.pow, A, B)),
                               ('number ** quantity',
                                observe(operator.pow, 2.0, B))):
                    ctx.evals()
                    if 'ok' in o:
                        ctx.violation('%s returned a value' % lab,
                                      dict(case, op=lab),
                                      {'returned': repr(o['ok'])[:160]})
                    elif o['exc'] not in ('TypeError', 'UnitsError'):
                        ctx.violation('%s raised %s' % (lab, o['exc']),
                                      dict(case, op=lab), {'msg': o['msg']})
                o = observe(lambda: A.in_units(db[1]))
                if same_vec(veca, vecb):
                    judge('in_units', o, 'value', va / _si(db[1]), ZERO7)
                else:
                    judge('in_units', o, 'UnitsError')
        if shape == 'array.array' and a_is_q and b_is_q:
            elementwise(ctx, case, A, B, va, vb, veca, vecb)
        if shape == 'scalar.scalar' and a_is_q and b_is_q and \
                mclass in ('equal', 'a<b', 'a>b', 'negative', 'tiny/huge'):
            # bundling scalars into one array quantity is combining them
            from pgradd.Units import ArrayQuantity
            o = observe(ArrayQuantity, [A, B])
            if same_vec(veca, vecb):
                judge('bundle', o, 'value', np.array([va, vb]), veca)
            else:
                judge('bundle', o, 'UnitsError')
    ctx.klass('%s | %s' % (mclass, shape))


def elementwise(ctx, case, A, B, va, vb, veca, vecb):
    """An array quantity is its elements: X[i] is the scalar quantity with
    the array's dimension and the i-th SI magnitude, and every operator on
    the arrays agrees, element by element, with the operator on X[i], Y[i]
    (same value, or the same error)."""
    from pgradd.Units import Quantity
    for nm, X, v, vec in (('a', A, va, veca), ('b', B, vb, vecb)):
        for i in range(len(v)):
            ctx.evals()
            o = observe(operator.getitem, X, i)
            if 'exc' in o:
                ctx.violation('indexing an array quantity raised %s'
                              % o['exc'], case, {'msg': o['msg']})
                return
            e = o['ok']
            if not isinstance(e, Quantity) or not same_vec(
                    tuple(float(x) for x in e.units.exps), vec) or \
                    not vals_close(e.value, v[i]):
                ctx.violation('element of an array quantity is not the '
                              'scalar quantity with its dimension and '
                              'magnitude', dict(case, operand=nm, index=i),
                              {'got': repr(e)[:160], 'want_value': float(v[i]),
                               'want_exps': vec})
                return
    for op, fn in BINOPS.items():
        if op == '/' and np.any(np.asarray(vb) == 0):
            continue
        whole = observe(fn, A, B)
        for i in range(len(va)):
            ctx.evals()
            part = observe(fn, A[i], B[i])
            if ('exc' in whole) != ('exc' in part) or (
                    'exc' in whole and whole['exc'] != part['exc']):
                ctx.violation('%s on array quantities and on their elements '
                              'disagree about raising' % op,
                              dict(case, op=op, index=i),
                              {'arrays': whole.get('exc', 'returned'),
                               'elements': part.get('exc', 'returned')})
                return
            if 'exc' in whole:
                continue
            w = whole['ok']
            if np.ndim(w) == 0:
                # == / != of incompatible arrays give one bool
                wi = w
            else:
                wi = w[i]
            pv, pe, pq = unpack(part['ok'])
            wv, we, wq = unpack(wi)
            if pq != wq or (pq and not same_vec(pe, we)) or not (
                    vals_close(wv, pv) if not isinstance(pv, (bool, np.bool_))
                    else bool(wv) == bool(pv)):
                ctx.violation('%s on array quantities differs from the same '
                              'operator on their elements' % op,
                              dict(case, op=op, index=i),
                              {'array_element': repr(wi)[:120],
                               'elements': repr(part['ok'])[:120]})
                return
        ctx.nontrivial(['elementwise', case['a'][0], case['b'][0],
                        case['mclass'], op])
    ctx.count('elementwise_array_checks')


_SI = {}


def _si(unit):
    """SI magnitude of one `unit`, from the harness's own reference."""
    if unit == 'm^0.5 kg':
        return 1.0
    if unit not in _SI:
        from vmon.props.c10 import parse_own
        from vmon.refs import units as U
        text = unit.replace('^0.5', '^1')   # own parser handles ints only
        v = U.evaluate(parse_own(text))
        _SI[unit] = float(v.mag) if '^0.5' not in unit else \
            float(v.mag) ** 0.5
    return _SI[unit]


BLANK_PAIRS = [('m s', 'ms'), ('W/(m K)', 'W/(mK)'), ('k g', 'kg'),
               ('h a', 'ha'), ('m in', 'min'), ('c d', 'cd'), ('P a', 'Pa'),
               ('m mol', 'mmol'), ('f t', 'ft'), ('d a', 'da'),
               ('N m', 'Nm'), ('m Pa', 'mPa'), ('k cal/mol', 'kcal/mol')]


def check_blank_targets(ctx, order):
    """Conversion targets that differ only in blanks are DIFFERENT units
    (a blank multiplies): converting to one, then to the other, in one
    process, in both orders."""
    from pgradd.Units import eval_qty
    from vmon.refs import units as U
    from vmon.props.c10 import parse_own
    for a, b in BLANK_PAIRS:
        for first, second in ((a, b), (b, a))[::order]:
            for text in (first, second):
                try:
                    ref = U.evaluate(parse_own(text))
                except Exception:
                    continue          # not a unit at all: C10's business
                src = observe(eval_qty, '3 ' + first)
                if 'exc' in src:
                    continue
                try:
                    rs = U.evaluate(parse_own(first))
                except Exception:
                    continue
                same = tuple(rs.v) == tuple(ref.v)
                for name in ('in_units', 'has_units'):
                    o = observe(getattr(src['ok'], name), text) if hasattr(
                        src['ok'], name) else None
                    if o is None:
                        continue
                    ctx.evals()
                    case = {'quantity': '3 ' + first, 'target': text,
                            'method': name}
                    if name == 'has_units':
                        if 'exc' in o or bool(o['ok']) != same:
                            ctx.violation('has_units(text) disagrees with '
                                          'the dimensions of the text', case,
                                          {'got': repr(o.get('ok', o.get(
                                              'exc'))), 'want': same})
                            return
                    elif same:
                        want = 3 * float(rs.mag) / float(ref.mag)
                        if 'exc' in o or abs(float(o['ok']) - want) > 1e-9 * \
                                abs(want):
                            ctx.violation('in_units(text) gives another '
                                          'value than the text denotes', case,
                                          {'got': repr(o.get('ok', o.get(
                                              'exc'))), 'want': want})
                            return
                    elif 'ok' in o:
                        ctx.violation('in_units(text) converted to a unit of '
                                      'another dimension', case,
                                      {'got': repr(o['ok'])})
                        return
                    elif o['exc'] != 'UnitsError':
                        ctx.violation('in_units(text) raised %s for an '
                                      'incompatible target' % o['exc'], case,
                                      {'msg': o['msg']})
                        return
    ctx.count('blank_differing_targets_checked')


def canon(x):
    v, e, isq = unpack(x)
    return repr((np.asarray(v, dtype=float).tolist(), e, isq))


def check_threads(ctx, key=None, rounds=3):
    """Arithmetic, comparison and conversion are functions of their operands:
    the same operand objects combined by four threads at once give what they
    give alone -- the same value and units, or the same UnitsError."""
    from vmon.core import threads as TH
    key = key or 'thr%d_%d' % (ctx.seed, ctx.shard)
    r = random.Random('c11thr:%s' % key)
    real_dims = [d for d in DIMS if d[1] is not None]
    pairs = []
    for _ in range(16):
        da, db = r.choice(real_dims), r.choice(real_dims)
        if r.random() < 0.4:
            db = da
        arr = r.random() < 0.3
        pairs.append((da, db, arr, [r.uniform(-5, 5) for _ in range(3)],
                      [r.uniform(0.1, 5) for _ in range(3)]))
    ops = [('+', operator.add), ('-', operator.sub), ('*', operator.mul),
           ('/', operator.truediv), ('<', operator.lt), ('==', operator.eq)]

    def make_jobs():
        jobs = []
        for k, (da, db, arr, ma, mb) in enumerate(pairs):
            A = make(ma, da, arr, route=k % len(ROUTES))
            B = make(mb, db, arr)
            for name, fn in ops:
                def thunk(fn=fn, A=A, B=B):
                    out = fn(A, B)
                    if isinstance(out, (bool, np.bool_)):
                        return repr(bool(out))
                    if isinstance(out, np.ndarray) and out.dtype == bool:
                        return repr(out.tolist())
                    return canon(out)
                jobs.append(((k, da[0], name, db[0]), thunk))
            if not arr:
                jobs.append(((k, da[0], 'in_units', db[1]),
                             lambda A=A, u=db[1]: repr(float(A.in_units(u)))))
        return jobs
    res = TH.stress(make_jobs, nthreads=4, rounds=rounds)
    TH.judge(ctx, res, 'quantity arithmetic on shared operands',
             {'what': 'thread stress', 'key': key})


def run_shard(ctx):
    i = 0
    if ctx.shard % 4 == 2:
        check_threads(ctx)
    if ctx.shard % 4 == 0:
        check_blank_targets(ctx, 1 if ctx.shard % 8 == 0 else -1)
    reps = 2 if ctx.tier == 'quick' else 8
    for rep in range(reps):
        for da, db in itertools.product(DIMS, DIMS):
            for mclass in MAGS:
                for shape in SHAPES:
                    if not ctx.mine(i):
                        i += 1
                        continue
                    i += 1
                    r = ctx.sub_rng('c11', da[0], db[0], mclass, shape, rep)
                    ma, mb = magnitudes(r, mclass, 3 if rep % 2 == 0 else 1)
                    key = [da[0], db[0], mclass, shape]
                    check_pair(ctx, key, da, db, mclass, shape, ma, mb)
                    if rep == 0 and mclass == 'a<b' and shape == \
                            'scalar.scalar':
                        ctx.sample({'a': '%s %s' % (ma[0], da[1]),
                                    'b': '%s %s' % (mb[0], db[1]),
                                    'ops': 'all 14'})


def replay(ctx, case):
    if case.get('what') == 'thread stress':
        return check_threads(ctx, case['key'], rounds=12)
    da = [d for d in DIMS if d[0] == case['a'][0]][0]
    db = [d for d in DIMS if d[0] == case['b'][0]][0]
    check_pair(ctx, case.get('key', ['replay']), da, db, case['mclass'],
               case['shape'], case['a'][2], case['b'][2])


def classify(v):
    return None


LEVEL_TEXT = ('Held on the complete grid of dimension-class pairs (17x17) x '
              '14 operations x 7 magnitude classes x 4 operand shapes '
              '(exhaustive over classes, random magnitudes inside a class): '
              'each outcome is compared with an independent (magnitude, '
              'exponent-vector) model. Exhaustive over the class grid.')
