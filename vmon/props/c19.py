"""C19 -- group identity is the centre plus the multiset of peripherals.

Monitor kind: reference model ((centre, Counter(peripherals)) with the
harness's own canonical renderer) beside Group construction / parsing /
comparison / hashing / dict and library lookups, bounded-exhaustive over
orderings and run-length spellings.
"""
import collections
import os
import random
import json
import itertools

from vmon.core.obs import observe
from vmon.core import libs
from vmon.gen import libfiles

TECHNIQUE = ('runtime monitoring: reference-model oracle ((centre, multiset) '
             'identity, own canonical renderer) over bounded-exhaustive '
             'orderings and run-length spellings; dict / library lookups '
             'observed')
RULE = ('centres from a 10-name alphabet (incl. C[d], C[.], CO, Pt, N[A]) x '
        'all multisets of <=4 (thorough <=5, sampled 6) peripherals over a '
        '6-name alphabet x all distinct orderings x all run-length spellings; '
        'pairs of different multisets (one count off, one name swapped, other '
        'centre); random larger groups; malformed names; synthetic library '
        'files spelling their keys non-canonically. Non-trivial = a multiset '
        'with >=2 distinct spellings whose equality, hash, dict-slot and '
        'parse round-trip relations were all evaluated; distinct by '
        '(centre, multiset).'
        ' '
        'Rounds 17-19: copies / pickles of groups; groups of a user'
        ' subclass and across importlib.reload in the child interpreter;'
        ' construction and parsing from four threads.')
ASSUMPTIONS = [
    'sub-group names are non-empty, contain no parentheses and are not all '
    'digits',
    'malformed names: the statement fixes no error class; the only verdict '
    'is that whatever parse() returns round-trips through its canonical name',
]
CONFIG = {
    'shards': {'quick': 16, 'thorough': 16},
    'min_nontrivial': {'quick': 1000, 'thorough': 4000},
}
ANCHORS = [
    'pgradd.GroupAdd.Group:Group.parse',
    'pgradd.GroupAdd.Group:Group.__init__',
    'pgradd.GroupAdd.Group:Group._canonical_name',
    'pgradd.GroupAdd.Group:Descriptor.__hash__',
    'pgradd.GroupAdd.Group:Descriptor.__eq__',
    'pgradd.GroupAdd.Library:GroupLibrary.__getitem__',
    'pgradd.GroupAdd.Library:GroupLibrary.__contains__',
    'pgradd.GroupAdd.Library:GroupLibrary._do_load',
]
CENTRES = ['C', 'O', 'H', 'C[d]', 'C[.]', 'CO', 'Pt', 'N[A]', 'C[B]', 'Ru']
PERIPH = ['C', 'H', 'C[d]', 'CO', 'Pt', 'N[A]', 'O']
MALFORMED = ['3(C)', 'C(3)', 'C(H)²', 'C(H', 'C(H))', 'C((H))', 'C()', 'C(H)0',
             'C(H)()2', '', '(H)', 'C(H)2 3', 'C(H)(2)', 'C(H)٣', 'C(H)-1',
             'C(H)2(', 'C(H)1.5', 'C)H(', 'C(H)(', 'C(H)00', 'C(H)01']


def ref_canon(centre, counter):
    """The harness's own canonical name: peripherals in sorted order, runs
    written once with a count > 1."""
    out = centre
    for name in sorted(k for k, v in counter.items() if v > 0):
        out += '(%s)' % name
        if counter[name] > 1:
            out += str(counter[name])
    return out


def orderings(counter):
    items = []
    for k, v in counter.items():
        items += [k] * v
    return sorted(set(itertools.permutations(items)))


def compositions(n):
    if n == 0:
        yield ()
        return
    for first in range(1, n + 1):
        for rest in compositions(n - first):
            yield (first,) + rest


def spellings(order):
    """All run-length spellings of one ordering."""
    runs = [(k, len(list(g))) for k, g in itertools.groupby(order)]
    per_run = []
    for name, n in runs:
        opts = []
        for comp in compositions(n):
            opts.append(''.join('(%s)' % name + (str(c) if c > 1 else '')
                                for c in comp))
            if 1 in comp:   # an explicit count of 1 is also legal text
                opts.append(''.join('(%s)' % name + str(c) for c in comp))
        per_run.append(sorted(set(opts)))
    for combo in itertools.product(*per_run):
        yield ''.join(combo)


def big_forms(rng, counter):
    """A bounded set of orderings and run-length spellings for a multiset
    too large to enumerate (counts of 9 and more)."""
    items = []
    for k, v in sorted(counter.items()):
        items += [k] * v
    ords = [tuple(items), tuple(reversed(items))]
    for _ in range(3):
        sh = list(items)
        rng.shuffle(sh)
        ords.append(tuple(sh))
    texts = set()
    keys = sorted(counter)
    for order in (keys, list(reversed(keys))):
        # whole counts, and each count split in two in a few places
        texts.add(''.join('(%s)%s' % (k, counter[k] if counter[k] > 1 else '')
                          for k in order))
        for k in order:
            n = counter[k]
            for a in (1, 2, 9, 10, n - 1, n // 2):
                if 0 < a < n:
                    parts = []
                    for k2 in order:
                        if k2 == k:
                            parts.append('(%s)%s(%s)%s' % (
                                k, a if a > 1 else '', k,
                                n - a if n - a > 1 else ''))
                        else:
                            parts.append('(%s)%s' % (
                                k2, counter[k2] if counter[k2] > 1 else ''))
                    texts.add(''.join(parts))
                    # the second part after the other peripherals
                    if len(order) > 1:
                        rest = [k2 for k2 in order if k2 != k]
                        texts.add('(%s)%s' % (k, a if a > 1 else '') + ''.join(
                            '(%s)%s' % (k2, counter[k2] if counter[k2] > 1
                                        else '') for k2 in rest) +
                            '(%s)%s' % (k, n - a if n - a > 1 else ''))
    return ords, texts


def check_multiset(ctx, centre, counter, limit=400, big=False):
    from pgradd.GroupAdd.Group import Group
    case = {'centre': centre, 'peripherals': dict(counter)}
    want = ref_canon(centre, counter)
    groups = []
    rng = ctx.sub_rng('c19', centre, sorted(counter.items()))
    if big:
        ords, big_texts = big_forms(rng, counter)
    else:
        ords = orderings(counter)
        big_texts = None
    if len(ords) > 40:
        ords = rng.sample(ords, 40)
    texts = set()
    if big_texts is not None:
        texts = set(centre + t for t in big_texts)
    for od in ords:
        o = observe(Group, None, centre, list(od))
        ctx.evals()
        if 'exc' in o:
            ctx.violation('Group(...) raised %s' % o['exc'], case,
                          {'order': od, 'msg': o['msg']})
            return
        groups.append(('ctor %s' % (list(od),), o['ok']))
        if len(groups) % 5 == 1 and not big:
            # the same peripherals as a tuple, and as a GENERATOR during whose
            # consumption other groups are constructed (naming is re-entrant)
            def lazy(seq):
                for x in seq:
                    Group(None, 'O', ['H', x, 'C'])
                    Group.parse(None, 'C(H)2(%s)' % x)
                    yield x
            for lab, arg in (('tuple', tuple(od)), ('generator', lazy(od))):
                o2 = observe(Group, None, centre, arg)
                ctx.evals()
                if 'exc' in o2:
                    ctx.violation('Group(...) raised %s for peripherals given '
                                  'as a %s' % (o2['exc'], lab), case,
                                  {'order': od, 'msg': o2['msg']})
                    return
                groups.append(('ctor from a %s %s' % (lab, list(od)),
                               o2['ok']))
        if big:
            continue
        for sp in spellings(od):
            texts.add(centre + sp)
    texts = sorted(texts)
    if len(texts) > limit:
        texts = rng.sample(texts, limit)
    for t in texts:
        o = observe(Group.parse, None, t)
        ctx.evals()
        if 'exc' in o:
            ctx.violation('Group.parse raised %s on a well-formed name'
                          % o['exc'], dict(case, text=t), {'msg': o['msg']})
            return
        groups.append(('parse %r' % t, o['ok']))
    if len(groups) % 3 == 0 and not big:
        # copies / unpickled copies of a group are that group (name, hash,
        # equality with the other spellings)
        from vmon.core import clones
        others = [g_ for _, g_ in groups[1:4]]
        clones.agreement(ctx, case, groups[0][1], [
            ('str', lambda g_: str(g_)),
            ('hash', lambda g_: repr(hash(g_) == hash(others[0])
                                     if others else hash(g_))),
            ('== other spellings', lambda g_: repr([g_ == o_ and o_ == g_
                                                    for o_ in others])),
            ('!= other spellings', lambda g_: repr([g_ != o_
                                                    for o_ in others])),
            ('in a set', lambda g_: repr(len(set([g_] + others))))],
            'group', 'after')
    first = groups[0][1]
    for how, g in groups:
        c = dict(case, how=how)
        if g.name != want:
            ctx.violation('canonical name differs from the reference', c,
                          {'got': g.name, 'want': want})
            return
        if not (g == first) or (g != first) or not (first == g):
            ctx.violation('equal multisets compare unequal', c,
                          {'a': repr(g), 'b': repr(first)})
            return
        if hash(g) != hash(first):
            ctx.violation('equal groups hash differently', c, {})
            return
        if {first: 1}.get(g) != 1:
            ctx.violation('equal group does not find the dict entry', c, {})
            return
        # string interoperability with the canonical name
        if not (g == want) or not (want == g) or (g != want) or \
                {g: 1}.get(want) != 1 or {want: 1}.get(g) != 1 or \
                hash(g) != hash(want):
            ctx.violation('group is not interchangeable with its canonical '
                          'name as a string', c, {'name': want})
            return
        back = observe(Group.parse, None, g.name)
        if 'exc' in back or not (back['ok'] == g) or \
                hash(back['ok']) != hash(g):
            ctx.violation('canonical name does not parse back to the same '
                          'group', c, {'name': g.name,
                                       'back': repr(back.get('ok'))})
            return
        ctx.evals(6)
    # <= direction: different multisets are different groups
    others = []
    for k in list(counter) + [p for p in PERIPH if p not in counter][:1]:
        c2 = collections.Counter(counter)
        c2[k] += 1
        others.append((centre, c2))
        if counter[k] > 0:
            c3 = collections.Counter(counter)
            c3[k] -= 1
            others.append((centre, +c3))
            sw = [p for p in PERIPH if p != k][0]
            c4 = collections.Counter(counter)
            c4[k] -= 1
            c4[sw] += 1
            others.append((centre, +c4))
    oc = [c for c in CENTRES if c != centre][0]
    others.append((oc, counter))
    for c2, cnt2 in others:
        ps = []
        for k, v in cnt2.items():
            ps += [k] * v
        g2 = Group(None, c2, ps)
        ctx.evals()
        same = (c2 == centre and +collections.Counter(cnt2) ==
                +collections.Counter(counter))
        if same:
            continue
        if (g2 == first) or not (g2 != first) or {first: 1}.get(g2) == 1 \
                or g2 == want or {want: 1}.get(g2) == 1:
            ctx.violation('different multisets compare equal / share a dict '
                          'slot', case, {'other': [c2, dict(cnt2)],
                                         'names': [g2.name, first.name]})
            return
    if len(groups) >= 2:
        ctx.nontrivial([centre, sorted(counter.items())])
        ctx.klass('%d peripherals' % sum(counter.values()))
        ctx.sample({'centre': centre, 'multiset': dict(counter),
                    'canonical': want, 'spellings_checked': len(groups),
                    'e.g.': [h for h, _ in groups[:4]]})


def check_malformed(ctx, text):
    from pgradd.GroupAdd.Group import Group
    o = observe(Group.parse, None, text)
    ctx.evals()
    if 'exc' in o:
        ctx.klass('malformed -> %s' % o['exc'])
        return
    g = o['ok']
    back = observe(Group.parse, None, g.name)
    if 'exc' in back or not (back['ok'] == g) or hash(back['ok']) != hash(g):
        ctx.violation('a group returned for odd text does not round-trip '
                      'through its canonical name', {'text': text},
                      {'name': g.name})
        return
    ctx.klass('malformed -> group that round-trips')


def check_library(ctx, key):
    """A library file that spells its keys non-canonically."""
    from pgradd.GroupAdd.Group import Group
    import random
    rng = random.Random('c19lib:%s' % key)
    entries = {}
    spelled = {}
    for _ in range(rng.randint(2, 6)):
        centre = rng.choice(CENTRES)
        cnt = collections.Counter(rng.choice(PERIPH)
                                  for _ in range(rng.randint(1, 5)))
        canon = ref_canon(centre, cnt)
        if canon in entries:
            continue
        od = rng.choice(orderings(cnt))
        sp = rng.choice(list(spellings(od)))
        entries[canon] = libfiles.random_group(rng, with_h=True)
        spelled[canon] = (centre + sp, centre, cnt)
    text = libfiles.render_library(
        entries, group_spelling={k: v[0] for k, v in spelled.items()})
    case = {'library_key': key, 'file_keys': [v[0] for v in spelled.values()]}
    with libfiles.TempTree() as tree:
        p = libfiles.write_library(tree, 'library.yaml', text)
        o = observe(libs.fresh, p)
    ctx.evals()
    if 'exc' in o:
        ctx.violation('library with non-canonically spelled keys failed to '
                      'load (%s)' % o['exc'], case, {'msg': o['msg']})
        return
    lib = o['ok']
    for canon, (sp, centre, cnt) in spelled.items():
        want_h = entries[canon]['H']
        probes = [('canonical string', canon),
                  ('Group.parse(file spelling)', Group.parse(None, sp)),
                  ('Group.parse(canonical)', Group.parse(None, canon))]
        od = rng.choice(orderings(cnt))
        probes.append(('Group(ctor, random order)',
                       Group(None, centre, list(od))))
        other = rng.choice(list(spellings(od)))
        probes.append(('Group.parse(other spelling %r)' % (centre + other),
                       Group.parse(None, centre + other)))
        for how, k in probes:
            ctx.evals()
            ent = lib[k]
            ok = (k in lib) and hasattr(ent, 'thermochem') and \
                abs(ent.thermochem.ND_H_ref - want_h) < 1e-9
            if not ok:
                ctx.violation('library lookup by another spelling misses the '
                              'entry', dict(case, lookup=how),
                              {'stored_as': sp, 'canonical': canon})
                return
    ctx.nontrivial(['lib', key])
    ctx.klass('library with non-canonical file keys')


def multisets(maxn):
    for n in range(0, maxn + 1):
        for combo in itertools.combinations_with_replacement(PERIPH, n):
            yield collections.Counter(combo)


CHILD = r'''
import pickle, sys, json
sys.path.insert(0, sys.argv[2])
from pgradd.GroupAdd.Group import Group, Descriptor
data = pickle.load(open(sys.argv[1], 'rb'))
bad = []
for kind, name, obj in data:
    fresh = Group.parse(None, name) if kind == 'g' else Descriptor(None, name)
    if not (obj == fresh) or not (fresh == obj) or obj != fresh:
        bad.append([name, 'unpickled object != freshly built equal one'])
    elif hash(obj) != hash(fresh) or hash(obj) != hash(name):
        bad.append([name, 'equal objects hash differently after unpickling'])
    elif {fresh: 1}.get(obj) != 1 or {obj: 1}.get(fresh) != 1 or \
            {name: 1}.get(obj) != 1 or obj not in {fresh}:
        bad.append([name, 'dict / set lookup misses after unpickling'])
# identity does not depend on WHICH COPY of the class an object was made from:
# a user's subclass, and the module reloaded in a long-lived session
import importlib
import pgradd.GroupAdd.Group as GM
names = [name for kind, name, obj in data if kind == 'g'][:25]
olds = [(name, Group.parse(None, name), Group.parse(None, name))
        for name in names]


class UserGroup(Group):
    pass


def same(a, b, what, name):
    if not (a == b) or not (b == a) or (a != b) or (b != a):
        bad.append([name, what + ': equal groups compare unequal'])
    elif hash(a) != hash(b):
        bad.append([name, what + ': equal groups hash differently'])
    elif len({a: 1, b: 2}) != 1 or a not in {b} or b not in {a}:
        bad.append([name, what + ': equal groups are distinct dict keys'])


n_code = 0
for name, g, g2 in olds:
    same(g, UserGroup.parse(None, name), 'subclass of Group', name)
    n_code += 1
importlib.reload(GM)
for name, g, g2 in olds:
    same(g, g2, 'two groups made before a reload of the module', name)
    same(g, GM.Group.parse(None, name),
         'group made before / after a reload of the module', name)
    n_code += 2
print('@@' + json.dumps({'n': len(data), 'bad': bad[:5], 'n_code': n_code}))
'''


def check_other_process(ctx):
    """Identity must survive the trip into ANOTHER interpreter (pickle), whose
    string hashes are salted differently."""
    import pickle
    import subprocess
    import sys
    import tempfile
    from pgradd.GroupAdd.Group import Group, Descriptor
    import pgradd
    data = []
    r = ctx.sub_rng('c19pickle', ctx.shard)
    for _ in range(60):
        cnt = collections.Counter(r.choice(PERIPH)
                                  for _ in range(r.randint(0, 5)))
        g = Group(None, r.choice(CENTRES), sorted(cnt.elements()))
        data.append(('g', g.name, g))
    for nm in ('Oxirane', 'Cis', 'surface-ring strain'):
        data.append(('d', nm, Descriptor(None, nm)))
    with tempfile.TemporaryDirectory(prefix='vmon_c19_') as td:
        p = os.path.join(td, 'groups.pkl')
        try:
            with open(p, 'wb') as f:
                pickle.dump(data, f)
        except Exception as exc:
            ctx.skip('groups cannot be pickled (%s)' % type(exc).__name__)
            return
        env = dict(os.environ, PYTHONHASHSEED=str(1000 + ctx.shard * 7 +
                                                   ctx.seed))
        root = os.path.dirname(os.path.dirname(os.path.abspath(
            pgradd.__file__)))
        out = subprocess.run([sys.executable, '-W', 'ignore', '-c', CHILD, p,
                              root], capture_output=True, text=True, env=env,
                             timeout=300)
    ctx.evals()
    line = [ln for ln in out.stdout.split('\n') if ln.startswith('@@')]
    if not line:
        ctx.violation('groups pickled here cannot be used in another '
                      'interpreter', {'what': 'cross-process pickle'},
                      {'stderr': out.stderr[-600:]})
        return
    rep = json.loads(line[0][2:])
    if rep['bad']:
        why = rep['bad'][0][1]
        ctx.violation(('group identity depends on which copy of the class '
                       'made the object: %s' if ('reload' in why or
                                                 'subclass' in why) else
                       'group identity does not survive pickling into another '
                       'interpreter: %s') % why,
                      {'what': 'cross-process pickle'}, {'examples':
                                                         rep['bad']})
        return
    ctx.count('groups_checked_in_another_interpreter', rep['n'])
    ctx.count('identities_checked_across_subclass_and_module_reload',
              rep.get('n_code', 0))


def check_threads(ctx, key=None, rounds=3):
    """A group's name, hash and equality are functions of (centre, multiset):
    groups constructed and parsed by four threads at once (each thread all
    orderings and spellings) come out as when made alone."""
    from vmon.core import threads as TH
    from pgradd.GroupAdd.Group import Group
    key = key or 'thr%d_%d' % (ctx.seed, ctx.shard)
    r = random.Random('c19thr:%s' % key)
    items = []
    for _ in range(14):
        cnt = collections.Counter(r.choice(PERIPH)
                                  for _ in range(r.randint(1, 6)))
        if r.random() < 0.3:
            cnt[r.choice(PERIPH)] += r.choice([9, 10, 12])
        centre = r.choice(CENTRES)
        od = list(cnt.elements())
        r.shuffle(od)
        sp = spellings(orderings(cnt)[0]) if sum(cnt.values()) <= 6 else \
            [''.join('(%s)%s' % (p, n if n > 1 else '')
                     for p, n in sorted(cnt.items()))]
        items.append((centre, od, centre + r.choice(list(sp))))

    def make_jobs():
        jobs = []
        for k, (centre, od, text) in enumerate(items):
            def ctor(centre=centre, od=od):
                g = Group(None, centre, list(od))
                return repr((str(g), g == Group(None, centre,
                                                list(reversed(od))),
                             hash(g) == hash(Group(None, centre,
                                                   list(reversed(od))))))

            def parse(text=text, centre=centre, od=od):
                g = Group.parse(None, text)
                return repr((str(g), g == Group(None, centre, list(od))))
            jobs.append((('ctor', k), ctor))
            jobs.append((('parse', k), parse))
        return jobs
    res = TH.stress(make_jobs, nthreads=4, rounds=rounds)
    TH.judge(ctx, res, 'Group construction and parsing',
             {'what': 'thread stress', 'key': key})


def run_shard(ctx):
    i = 0
    if ctx.shard % 4 == 0:
        check_other_process(ctx)
    if ctx.shard % 4 == 2:
        check_threads(ctx)
    maxn = 4 if ctx.tier == 'quick' else 5
    for cnt in multisets(maxn):
        for centre in CENTRES:
            if ctx.mine(i):
                check_multiset(ctx, centre, cnt)
            i += 1
    r = ctx.sub_rng('c19big', ctx.shard)
    for _ in range(6 if ctx.tier == 'quick' else 60):
        cnt = collections.Counter(r.choice(PERIPH)
                                  for _ in range(r.randint(5, 8)))
        check_multiset(ctx, r.choice(CENTRES), cnt, limit=150)
    # repeat counts of two digits (a surface atom with twelve neighbours)
    big = []
    for n in (9, 10, 11, 12, 15, 20, 100):
        for p1 in ('Pt', 'H', 'C', 'CO'):
            big.append(collections.Counter({p1: n}))
            big.append(collections.Counter({p1: n, 'O': 1}))
            big.append(collections.Counter({p1: n, 'C[d]': 10}))
    for j, cnt in enumerate(big):
        if ctx.mine(j):
            ctx.count('groups_with_two_digit_counts')
            check_multiset(ctx, CENTRES[j % len(CENTRES)], cnt, limit=80,
                           big=True)
    for j, t in enumerate(MALFORMED):
        if ctx.mine(j):
            check_malformed(ctx, t)
    for j in range(40 if ctx.tier == 'quick' else 400):
        if ctx.mine(j):
            check_library(ctx, 'L%d_%d' % (ctx.seed, j))


def replay(ctx, case):
    if case.get('what') == 'thread stress':
        return check_threads(ctx, case['key'], rounds=12)
    if 'library_key' in case:
        check_library(ctx, case['library_key'])
    elif 'centre' in case:
        cnt = collections.Counter(case['peripherals'])
        check_multiset(ctx, case['centre'], cnt,
                       big=sum(cnt.values()) >= 9)
    else:
        check_malformed(ctx, case['text'])


def classify(v):
    return None


LEVEL_TEXT = ('Held on every enumerated multiset: bounded-exhaustive over 10 '
              'centres x all multisets of <=4 (thorough <=5) peripherals x '
              'all orderings x all run-length spellings, plus sampled larger '
              'groups, near-miss pairs for the converse, malformed names and '
              'synthetic library files with non-canonical keys; identity is '
              'judged against an independent (centre, multiset) model.')
