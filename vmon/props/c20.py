"""C20 -- standard errors are the scaled quadratic form of the descriptors.

Monitor kind: reference model (|RMSE_P(T)| * sqrt(x'Mx) with x, M and the
basis parsed from uq.yaml by the harness) + relational checks (scaling,
permutation) + exception oracle for out-of-basis descriptors.
"""
import math
import os
import random

import numpy as np

from vmon.core.obs import observe, is_plain_number, close
from vmon.core import libs
from vmon.gen import libfiles

TECHNIQUE = ('runtime monitoring: reference-model oracle (own quadratic form '
             'from the harness\'s own parse of uq.yaml) + metamorphic scaling '
             '/ permutation relations + exception oracle')
RULE = ('3 shipped libraries with uncertainty data: exhaustive unit vectors '
        'over each basis, random sparse/dense mappings with fractional and '
        'negative counts, scaled copies k in {-3,-1,0,0.5,2,1e3}, permuted '
        'copies, mappings with one out-of-basis descriptor (with and without '
        'thermochem data); synthetic libraries with a generated PSD matrix of '
        'size 2-6; 3 temperatures across the RMSE range. Non-trivial = a '
        'mapping whose three SE values were compared with the reference at '
        '>=1 temperature, or whose out-of-basis clause was decided; distinct '
        'by (library, mapping).'
        ' Count types: Python int / float, numpy, Fraction; keys as str or '
        'Group objects. '
        ' '
        'Rounds 17-18: copies / pickles of estimates with uncertainty; one'
        ' UQ library / shared estimates from four threads.')
ASSUMPTIONS = [
    'the RMSE correlation value at T is observed through the public getter '
    '(its own correctness is C05)',
    'tolerance 1e-10 relative',
]
CONFIG = {
    'shards': {'quick': 8, 'thorough': 16},
    'min_nontrivial': {'quick': 1200, 'thorough': 6000},
}
ANCHORS = [
    'pgradd.ThermoChem.group_data:ThermochemGroupAdditive.__init__',
    'pgradd.ThermoChem.group_data:ThermochemGroupAdditive.get_CpoR_SE',
    'pgradd.ThermoChem.group_data:ThermochemGroupAdditive.get_HoRT_SE',
    'pgradd.ThermoChem.group_data:ThermochemGroupAdditive.get_SoR_SE',
]
SE = [('get_CpoR_SE', 'get_CpoR'), ('get_HoRT_SE', 'get_HoRT'),
      ('get_SoR_SE', 'get_SoR')]
_uq = {}
_syn = {}


def harness_uq(spec):
    """basis, matrix parsed by the harness itself."""
    key = repr(spec)
    if key in _uq:
        return _uq[key]
    import yaml
    if isinstance(spec, str):
        p = os.path.join(libs.data_dir(), spec, 'uq.yaml')
        with open(p) as f:
            d = yaml.safe_load(f)['UQ']
        basis = [str(x) for x in d['InvCovMat']['groups']]
        M = np.array(d['InvCovMat']['mat'], dtype=float)
    else:
        meta = synthetic(spec[1])[1]
        basis = list(meta['uq']['groups'])
        M = np.array(meta['uq']['mat'], dtype=float)
    _uq[key] = (basis, M)
    return _uq[key]


def synthetic(key):
    if key in _syn:
        return _syn[key]
    rng = random.Random('c20syn:%s' % key)
    n = rng.randint(2, 6)
    names = []
    pool = ['C(C)(H)3', 'C(C)2(H)2', 'O(C)(H)', 'CO(C)(H)', 'C(C)(H)2(O)',
            'corrA', 'corrB', 'C(H)3(Pt)', 'Pt(C)']
    names = rng.sample(pool, n)
    groups = {}
    descs = {}
    for nm in names:
        g = libfiles.random_group(rng, with_cp=True, with_h=True, with_s=True,
                                  tref=298.15)
        g['range'] = [100.0, 1500.0]
        g['Cp'] = {100.0 + 200.0 * i: round(rng.uniform(1, 9), 3)
                   for i in range(8)}
        (groups if '(' in nm else descs)[nm] = g
    extra = 'C(C)4'          # has data, not in the basis
    groups[extra] = dict(groups[names[0]] if names[0] in groups
                         else list((groups or descs).values())[0])
    A = np.array([[rng.uniform(-1, 1) for _ in range(n)] for _ in range(n)])
    M = A.dot(A.T) + 0.05 * np.eye(n)
    M = np.round(M, 6)
    M = (M + M.T) / 2.0
    int_matrix = rng.random() < 0.3
    if int_matrix:
        # a matrix written with integer literals only (the loader keeps an
        # integer dtype): products with counts of ~1e9 leave int64
        Ai = np.array([[rng.randint(-3, 3) for _ in range(n)]
                       for _ in range(n)])
        M = (Ai.dot(Ai.T) + np.eye(n, dtype=int)).astype(int)
    if rng.random() < 0.5 and not int_matrix:
        # "M is the stored matrix": a stored matrix need not be symmetric.
        # An antisymmetric part leaves x'Mx unchanged, but not what a loader
        # that "repairs" the matrix from one triangle computes.
        B = np.array([[rng.uniform(-0.3, 0.3) for _ in range(n)]
                      for _ in range(n)])
        M = M + np.round(B - B.T, 6)
    rm = libfiles.random_group(rng, with_cp=True, with_h=True, with_s=True,
                               tref=298.15)
    rm['Cp'] = {100.0 + 200.0 * i: round(rng.uniform(-0.5, 0.8), 4)
                for i in range(8)}
    rm['range'] = [100.0, 1500.0]
    rm['H'] = round(rng.uniform(-3, 8), 4)
    rm['S'] = round(rng.uniform(-1, 3), 4)
    order = list(names)
    rng.shuffle(order)
    uq = {'RMSE': rm, 'dof': rng.randint(3, 90),
          'mat': [[int(v) for v in row] for row in M.tolist()]
          if int_matrix else M.tolist(),
          'groups': order}
    # the matrix rows/cols follow `order`
    text = libfiles.render_library(groups, descs, uq=uq)
    with libfiles.TempTree() as tree:
        p = libfiles.write_library(tree, 'library.yaml', text)
        lib = libs.fresh(p)
    _syn[key] = (lib, {'uq': uq, 'names': names, 'extra': extra,
                       'text': text})
    return _syn[key]


def get_lib(spec):
    if isinstance(spec, str):
        return libs.get(spec)
    return synthetic(spec[1])[0]


def reference(spec, pairs):
    basis, M = harness_uq(spec)
    x = np.zeros(len(basis))
    for k, c in pairs:
        x[basis.index(k)] += c
    return float(x.dot(M).dot(x))


def se_values(ctx, case, est, T):
    out = {}
    for se, base in SE:
        o = observe(getattr(est, se), T)
        ctx.evals()
        if 'exc' in o:
            ctx.violation('%s raised %s' % (se, o['exc']), case,
                          {'T': T, 'msg': o['msg']})
            return None
        v = o['ok']
        if not (type(v) is float or is_plain_number(v)) or isinstance(
                v, np.ndarray):
            ctx.violation('%s is not a plain number' % se, case,
                          {'value': repr(v), 'type': type(v).__name__})
            return None
        if not (float(v) >= 0.0) or not math.isfinite(float(v)):
            ctx.violation('%s is negative or not finite' % se, case,
                          {'value': float(v)})
            return None
        out[se] = float(v)
    return out


def check_case(ctx, case):
    spec = case['lib']
    lib = get_lib(spec)
    basis, M = harness_uq(spec)
    pairs = [(k, c) for k, c in case['mapping']]
    outside = [k for k, _ in pairs if k not in basis]
    # the library's own view of the basis/matrix equals the harness's parse
    ub = [str(d) for d in lib.uq_contents['descriptors']]
    if ub != basis or not np.array_equal(
            np.asarray(lib.uq_contents['mat'], dtype=float), M):
        ctx.violation('library uncertainty block differs from uq.yaml as '
                      'parsed by the harness', case, {'basis_equal':
                                                      ub == basis})
        return
    mapping = dict(pairs)
    if case.get('keyform') == 'obj':
        by_name = dict((str(g), g) for g in lib)
        mapping = dict((by_name.get(k, k), c) for k, c in pairs)
        ctx.count('mappings_keyed_by_group_objects')
    ct = case.get('counttype') or ['py', 'py', 'py', 'numpy', 'float',
                                   'fraction'][len(repr(case['mapping'])) % 6]
    if ct != 'py':
        import fractions
        conv = {'numpy': lambda c: (np.int64(c) if isinstance(c, int)
                                    else np.float64(c)),
                'float': float,
                'fraction': lambda c: fractions.Fraction(c)
                if isinstance(c, int) else c}[ct]
        mapping = dict((k, conv(c)) for k, c in mapping.items())
        ctx.klass('count type ' + ct)
    o = observe(lib.Estimate, mapping, 'thermochem')
    ctx.evals()
    if outside:
        if 'exc' in o:
            ctx.klass('out-of-basis: Estimate raised %s' % o['exc'])
            ctx.nontrivial(['out', spec, case['mapping']])
            return
        est = o['ok']
        raised = 0
        for se, _ in SE:
            s = observe(getattr(est, se), case.get('T', 500.0))
            ctx.evals()
            if 'exc' in s:
                raised += 1
            else:
                ctx.violation('descriptor outside the uncertainty basis was '
                              'ignored (SE returned)', case,
                              {'outside': outside, 'method': se,
                               'value': repr(s['ok'])})
        if raised == 3:
            ctx.klass('out-of-basis: SE call raised')
            ctx.nontrivial(['out', spec, case['mapping']])
        return
    if 'exc' in o:
        ctx.violation('Estimate raised %s for an in-basis mapping'
                      % o['exc'], case, {'msg': o['msg']})
        return
    est = o['ok']
    q = reference(spec, pairs)
    if q < -1e-12 * float(np.abs(M).max()):
        ctx.skip('quadratic form negative (matrix not PSD on this vector)')
        return
    q = max(q, 0.0)
    rmse = lib.uq_contents['RMSE'].thermochem
    rr = rmse.get_range() or (298.15, 298.15)
    rng = ctx.sub_rng('c20T', spec, *[k for k, _ in pairs][:3])
    temps = [rr[0], rr[1], rng.uniform(*rr)]
    compared = 0
    if len(repr(case['mapping'])) % 3 == 0:
        # copies / unpickled copies of the estimate report the same errors
        from vmon.core import clones
        est_c = lib.Estimate(dict(mapping), 'thermochem')
        clones.agreement(ctx, case, est_c, [
            ('%s(%r)' % (se, T_), lambda e_, se=se, T_=T_: repr(float(
                getattr(e_, se)(T_)))) for se, _ in SE
            for T_ in (temps[0], temps[2])], 'estimate with uncertainty',
            'before' if len(pairs) % 2 else 'after')
    for T in temps:
        vals = se_values(ctx, case, est, T)
        if vals is None:
            return
        for se, base in SE:
            b = observe(getattr(rmse, base), T)
            if 'exc' in b:
                continue
            want = abs(float(b['ok'])) * math.sqrt(q)
            if not close(vals[se], want, rel=1e-10, abs_=1e-300,
                         scale=abs(want) + 1e-30 + abs(float(b['ok'])) *
                         1e-6 * math.sqrt(float(np.abs(M).max()))):
                ctx.violation('%s != |RMSE(T)| * sqrt(x\'Mx)' % se, case,
                              {'T': T, 'got': vals[se], 'want': want,
                               'xMx': q})
                return
            compared += 1
        # metamorphic: common factor and reordering
        for k in case.get('scales', []):
            est2 = lib.Estimate(dict((g, c * k) for g, c in pairs),
                                'thermochem')
            v2 = se_values(ctx, case, est2, T)
            if v2 is None:
                return
            for se, _ in SE:
                if not close(v2[se], abs(k) * vals[se], rel=1e-9,
                             abs_=1e-300, scale=abs(k) * vals[se] + 1e-30):
                    ctx.violation('SE(k*x) != |k|*SE(x)', case,
                                  {'k': k, 'method': se, 'got': v2[se],
                                   'want': abs(k) * vals[se]})
                    return
            ctx.count('scaling_relations')
        if case.get('permute') and len(pairs) > 1:
            pp = list(pairs)
            rng.shuffle(pp)
            est3 = lib.Estimate(dict(pp), 'thermochem')
            v3 = se_values(ctx, case, est3, T)
            if v3 is None:
                return
            for se, _ in SE:
                if not close(v3[se], vals[se], rel=1e-9, abs_=1e-300):
                    ctx.violation('SE depends on the order of the mapping',
                                  case, {'method': se, 'a': vals[se],
                                         'b': v3[se]})
                    return
            ctx.count('permutation_relations')
    if compared:
        ctx.nontrivial(['in', spec, case['mapping']])
        ctx.klass('in-basis mapping of %s keys' % (
            '1' if len(pairs) == 1 else '2-5' if len(pairs) <= 5 else '>5'))
        ctx.sample({'lib': spec, 'mapping': case['mapping'][:4],
                    'xMx': q, 'SE_at_T': {'T': temps[0], **vals}})


def check_threads(ctx, spec=None, rounds=3):
    """A standard error is a function of (library data, mapping): one UQ
    library estimating for four threads at once, and shared estimates read
    by four threads at once, give what a lone caller gets."""
    from vmon.core import threads as TH
    if spec is None:
        spec = libs.UQ_LIBS[(ctx.seed + ctx.shard // 4) % len(libs.UQ_LIBS)] \
            if ctx.shard % 8 < 4 else ['synthetic', 'u%d_%d' % (ctx.seed, 1)]
    lib = get_lib(spec)
    basis, M = harness_uq(spec)
    r = ctx.sub_rng('c20thr', repr(spec))
    maps = [dict((k, r.choice([1, 2, -1, 0.5, 3, 7]))
                 for k in r.sample(basis, min(len(basis), r.randint(1, 6))))
            for _ in range(8)]

    def values(est):
        return repr([float(getattr(est, se)(400.0)) for se, _ in SE])

    def make_jobs():
        jobs = []
        for mi, mp in enumerate(maps):
            jobs.append((('estimate', mi), lambda mp=mp: values(
                lib.Estimate(dict(mp), 'thermochem'))))
            try:
                shared = lib.Estimate(dict(mp), 'thermochem')
            except Exception:
                continue
            jobs.append((('shared estimate', mi),
                         lambda e=shared: values(e)))
        return jobs
    res = TH.stress(make_jobs, nthreads=4, rounds=rounds)
    TH.judge(ctx, res, 'standard errors from a shared library / estimate',
             {'what': 'thread stress', 'lib': spec})


def run_shard(ctx):
    if ctx.shard % 4 == 2:
        check_threads(ctx)
    i = 0
    specs = list(libs.UQ_LIBS) + [['synthetic', 'u%d_%d' % (ctx.seed, k)]
                                  for k in range(24 if ctx.tier == 'quick'
                                                 else 60)]
    per = 120 if ctx.tier == 'quick' else 800
    counts = [1, -1, 2, 3, 0.217, -0.5, 1.5, 0.392, 7, -2,
              2000000000, 3037000500, -4000000000]
    for spec in specs:
        lib = get_lib(spec)
        basis, M = harness_uq(spec)
        for k in basis:                       # exhaustive unit vectors
            if ctx.mine(i):
                check_case(ctx, {'lib': spec, 'mapping': [[k, 1]],
                                 'scales': [-1, 2]})
            i += 1
        # degenerate sizes: the empty mapping, a single zero count, the
        # whole basis at once
        if ctx.mine(i):
            check_case(ctx, {'lib': spec, 'mapping': [], 'scales': [2]})
            check_case(ctx, {'lib': spec, 'mapping': [[basis[0], 0]],
                             'scales': [-1]})
            check_case(ctx, {'lib': spec,
                             'mapping': [[k, 1 + (j % 3)]
                                         for j, k in enumerate(basis)],
                             'scales': [-1, 0.5], 'permute': True})
            ctx.count('degenerate_mappings', 3)
        i += 1
        with_data = [str(g) for g in lib if 'thermochem' in lib[g]
                     and str(g) not in basis]
        for j in range(per):
            if not ctx.mine(i):
                i += 1
                continue
            i += 1
            r = ctx.sub_rng('c20map', spec, j)
            if r.random() < 0.7:
                ks = r.sample(basis, min(len(basis), r.randint(1, 5)))
            else:
                ks = r.sample(basis, r.randint(1, len(basis)))
            pairs = [[k, r.choice(counts)] for k in ks]
            case = {'lib': spec, 'mapping': pairs,
                    'scales': r.sample([-3, -1, 0, 0.5, 2, 1e3], 2),
                    'permute': True,
                    'keyform': 'obj' if r.random() < 0.3 else 'str'}
            if r.random() < 0.2:
                out = r.choice(with_data) if with_data and r.random() < 0.6 \
                    else 'not-in-library'
                pairs.insert(r.randint(0, len(pairs)), [out, r.choice(counts)])
                case = {'lib': spec, 'mapping': pairs}
            check_case(ctx, case)


def replay(ctx, case):
    if case.get('what') == 'thread stress':
        return check_threads(ctx, case['lib'], rounds=10)
    check_case(ctx, case)


def classify(v):
    return None


LEVEL_TEXT = ('Held on every executed mapping: exhaustive unit vectors over '
              'the three shipped uncertainty bases, sampled mappings with '
              'scaled / permuted copies and out-of-basis descriptors, and '
              'synthetic libraries with generated PSD matrices; every SE is '
              'compared with the harness\'s own quadratic form built from its '
              'own parse of uq.yaml. Exploration over mappings.')
