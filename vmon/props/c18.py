"""C18 -- a correlation written to YAML reads back as the same correlation.

Monitor kind: relational (round-trip) oracle: yaml_format(units) text is fed
back through the real loaders (tagged document and embedded in a library
file) and the fields of the two correlation objects are compared.
"""
import math
import random

from vmon.core.obs import observe, is_plain_number
from vmon.core import libs
from vmon.gen import libfiles
from vmon.props.c13 import snapshot

TECHNIQUE = ('runtime monitoring: round-trip relational oracle '
             '(yaml_format -> real loader) on generated and shipped '
             'correlations over all output unit choices')
RULE = ('correlations with 0-15 Cp points, H/S present / absent / 0.0 / '
        'negative / large, range present or absent, constructed directly and '
        'obtained from the loader (numpy scalars) x output unit choices {none; '
        'kcal/mol+cal/(mol K); kJ/mol+J/(mol K); J/mol+J/(mol K)} x '
        'temperature {K, mK, kK} x two loading routes (tagged document, '
        'library file); plus every group of the 9 shipped libraries. '
        'Non-trivial = a (correlation, unit choice) whose text was reloaded '
        'by both routes and compared field by field; distinct by data+units.'
        ' Construction forms: Python floats, numpy scalars, Python ints, '
        'references merged in with update(), and the YAML loader. '
        ' '
        'Rounds 17-19: correlations in which one seven-digit tie'
        ' temperature appears in two fields, in mK / kK / cK / dK / uK / MK'
        ' / K; copies / pickles formatted; formatting and reading back from'
        ' four threads.')
ASSUMPTIONS = [
    '6 significant digits are written for dimensional values and '
    'temperatures: compared to 2e-5 relative; non-dimensional values exactly',
]
CONFIG = {
    'shards': {'quick': 16, 'thorough': 16},
    'min_nontrivial': {'quick': 1500, 'thorough': 15000},
}
ANCHORS = [
    'pgradd.ThermoChem.incomplete:ThermochemIncomplete.yaml_format',
    'pgradd.ThermoChem.incomplete:ThermochemIncomplete.yaml_construct',
    'pgradd.ThermoChem.incomplete:ThermochemIncomplete.has_ND_H',
    'pgradd.Units.qty:Quantity.fmt_in_units',
    'pgradd.yaml_io.yaml_io:load',
]
UNIT_CHOICES = [
    {},
    {'molar enthalpy': 'kcal/mol', 'molar entropy': 'cal/(mol*K)',
     'molar heat capacity': 'cal/(mol*K)'},
    {'molar enthalpy': 'kJ/mol', 'molar entropy': 'J/(mol K)',
     'molar heat capacity': 'J/(mol K)'},
    {'molar enthalpy': 'J/mol', 'molar entropy': 'J/(mol K)',
     'molar heat capacity': 'J/(mol K)'},
    {'molar enthalpy': 'kcal/mol'},                  # S, Cp non-dimensional
    {'molar heat capacity': 'kJ/(mol K)', 'molar entropy': 'kJ/(mol K)'},
]
T_CHOICES = [None, 'K', 'mK', 'kK']


def rel_close(a, b, rel):
    a, b = float(a), float(b)
    return a == b or abs(a - b) <= rel * max(abs(a), abs(b))


def compare(orig, back, units, case, ctx, route):
    """orig/back: snapshots.  Returns True if equal per the statement."""
    c = dict(case, route=route)
    tag = '' if units else ' [non-dimensional form]'
    for k, kind in (('H', 'molar enthalpy'), ('S', 'molar entropy')):
        a, b = orig[k], back[k]
        if (a is None) != (b is None):
            ctx.violation('%s_ref %s in the round trip%s' % (
                k, 'lost' if b is None else 'appeared',
                ' (zero value)' if a == 0 else ''), c,
                {'original': a, 'reloaded': b})
            return False
        if a is None:
            continue
        if not is_plain_number(b):
            ctx.violation('%s_ref reloaded as a non-plain number' % k, c,
                          {'reloaded': repr(b)})
            return False
        if units.get(kind):
            if not rel_close(a, b, 4e-5):
                ctx.violation('%s_ref differs beyond 6 significant digits'
                              % k, c, {'original': float(a),
                                       'reloaded': float(b)})
                return False
        elif float(a) != float(b):
            ctx.violation('%s_ref not exactly preserved%s' % (k, tag), c,
                          {'original': float(a), 'reloaded': float(b)})
            return False
    if not rel_close(orig['T_ref'], back['T_ref'], 1e-5):
        ctx.violation('T_ref differs beyond 6 significant digits', c,
                      {'original': orig['T_ref'], 'reloaded': back['T_ref']})
        return False
    if (orig['range'] is None) != (back['range'] is None) or (
            orig['range'] is not None and not all(
                rel_close(x, y, 1e-5) for x, y in zip(orig['range'],
                                                      back['range']))):
        ctx.violation('range differs in the round trip', c,
                      {'original': orig['range'], 'reloaded': back['range']})
        return False
    oc = sorted((float(t), float(v)) for t, v in orig['Cp'].items())
    bc = sorted((float(t), float(v)) for t, v in back['Cp'].items())
    if len(oc) != len(bc):
        ctx.violation('number of Cp points changed in the round trip', c,
                      {'original': len(oc), 'reloaded': len(bc)})
        return False
    for (t1, v1), (t2, v2) in zip(oc, bc):
        if not rel_close(t1, t2, 1e-5):
            ctx.violation('tabulated temperature differs', c,
                          {'original': t1, 'reloaded': t2})
            return False
        if units.get('molar heat capacity'):
            if not rel_close(v1, v2, 2e-5) and abs(v1 - v2) > 1e-300:
                ctx.violation('Cp value differs beyond 6 significant digits',
                              c, {'T': t1, 'original': v1, 'reloaded': v2})
                return False
        elif v1 != v2:
            ctx.violation('Cp value not exactly preserved%s' % tag, c,
                          {'T': t1, 'original': v1, 'reloaded': v2})
            return False
    return True


def roundtrip(ctx, case, corr, units):
    from pgradd import yaml_io
    orig = snapshot(corr)
    o = observe(corr.yaml_format, units)
    ctx.evals()
    if 'exc' in o:
        ctx.violation('yaml_format raised %s' % o['exc'], case,
                      {'msg': o['msg']})
        return False
    text = o['ok']
    case = dict(case, text=text[:900])
    # route 1: tagged document
    doc = '!ThermochemGroup\n' + text + '\n'
    r1 = observe(lambda: yaml_io.load(yaml_io.parse(doc)))
    ctx.evals()
    # route 2: embedded in a library file
    body = '\n'.join('            ' + ln for ln in text.split('\n'))
    lib_text = "groups:\n    'C(C)(H)3':\n        'thermochem':\n%s\n" % body
    with libfiles.TempTree() as tree:
        p = libfiles.write_library(tree, 'library.yaml', lib_text)
        r2 = observe(libs.fresh, p)
    ctx.evals()
    for route, r in (('tagged document', r1), ('library file', r2)):
        if 'exc' in r:
            why = ''
            if 'np.float64' in text or 'numpy' in text:
                why = ' [numpy repr in the text]'
            elif any(('e+' in ln or 'e-' in ln) for ln in text.split('\n')):
                why = ' [exponent notation in the text]'
            ctx.violation('formatted text cannot be loaded back (%s)%s' % (
                r['exc'], why), dict(case, route=route), {'msg': r['msg']})
            return False
    back1 = snapshot(r1['ok'])
    ent = r2['ok']['C(C)(H)3']
    if 'thermochem' not in ent:
        ctx.violation('library route lost the correlation', case, {})
        return False
    back2 = snapshot(ent['thermochem'])
    return compare(orig, back1, units, case, ctx, 'tagged document') and \
        compare(orig, back2, units, case, ctx, 'library file')


def gen_corr(rng):
    """Abstract data for a correlation (python floats)."""
    n = rng.choice([0, 0, 1, 2, 3, 5, 8, 12, 15])
    tref = rng.choice([298.15, 298.0, 300.0, 1087.787, 250.5])
    g = {'T_ref': tref, 'Cp': {}, 'range': None}
    if n:
        lo = rng.choice([100.0, 200.0, 298.15, 451.076])
        step = rng.choice([50.0, 100.0, 112.737])
        for i in range(n):
            g['Cp'][round(lo + i * step, 3)] = rng.choice(
                [0.0, round(rng.uniform(-3, 12), 6), rng.uniform(0, 5),
                 1e-6, -0.5, 123456.789])
        def lonely(t):
            # (two temperatures that agree to six digits would be ONE point
            # in the text: not this property's business)
            return all(abs(t - u) > 1e-4 * t for u in g['Cp'])
        if rng.random() < 0.15 and lonely(999.9996):
            # a temperature that becomes 999999.6 in mK (rounds to 1e+06 at
            # six digits), 99999.96 cK-like bands
            g['Cp'][999.9996] = rng.uniform(1, 9)
        if rng.random() < 0.1 and lonely(99.99996):
            g['Cp'][99.99996] = rng.uniform(1, 9)
        ts = sorted(g['Cp'])
        g['range'] = [min(ts[0], tref) - rng.choice([0, 10.5]),
                      max(ts[-1], tref) + rng.choice([0, 100.25, 999.99975 -
                                                      max(ts[-1], tref)
                                                      if max(ts[-1], tref) <
                                                      999 else 0])]
    elif rng.random() < 0.4:
        g['range'] = [tref - 10.0, tref + 500.0]
    g['H'] = rng.choice([None, 0.0, 0.0, -34.428, 500.25, 1e-6, -1e4,
                         rng.uniform(-100, 100),
                         # dimensional values in the rounding band just below
                         # a power of ten: 999999.7 / 99999.97 J/mol etc.
                         -999999.7 / (8.31446261815324 * tref),
                         99999.96 / (8.31446261815324 * tref),
                         999.9997 / (8.31446261815324 * tref) * 4184.0 / 1e3])
    g['S'] = rng.choice([None, 0.0, 12.125, -0.75, 1e-7, 1e3,
                         rng.uniform(-50, 50)])
    return g


TIE_T_UNITS = ['mK', 'kK', 'cK', 'dK', 'uK', 'MK', 'K', None]
TIE_LAYOUTS = ['T_ref = lower range bound', 'T_ref = upper range bound',
               'T_ref = first tabulated T, no range',
               'T_ref = last tabulated T, no range',
               'range = table extremes, T_ref = lower',
               'T_ref = a tabulated T inside']


def tie(rng, lo=100.0, hi=3000.0):
    """A temperature with exactly seven significant decimal digits, the last
    one a 5: a tie for six-digit rounding, decided by the last bit of
    whatever arithmetic converted it."""
    while True:
        t = float('%d5e-4' % rng.randint(100000, 999999)) * \
            rng.choice([1.0, 1.0, 1.0, 10.0])
        if lo <= t <= hi:
            return t


def gen_tie_corr(rng):
    """Correlations in which ONE temperature appears in two fields (T_ref and
    a range bound / a tabulated temperature, as in every shipped group) and is
    a six-digit rounding tie.  Equal temperatures must come out as equal
    texts, whichever field they are written in and whatever the unit."""
    layout = rng.choice(TIE_LAYOUTS)
    n = rng.choice([2, 3, 5, 8])
    t1 = tie(rng, 100.0, 900.0)
    step = rng.choice([50.0, 100.0, 112.5])
    inner = [round(t1 + 20.0 + i * step, 1) for i in range(n)]
    t2 = tie(rng, inner[-1] + 5.0, inner[-1] + 2000.0) \
        if inner[-1] + 5.0 < 9999.0 else inner[-1] + 50.0
    g = {'Cp': {}, 'H': rng.choice([None, 0.0, -34.428, 12.5]),
         'S': rng.choice([None, 0.0, 31.25]), 'layout': layout}
    ts = list(inner)
    if layout == 'T_ref = lower range bound':
        g['T_ref'], g['range'] = t1, [t1, inner[-1] + rng.choice([0, 100.0])]
    elif layout == 'T_ref = upper range bound':
        g['T_ref'], g['range'] = t2, [inner[0] - rng.choice([0, 10.0]), t2]
    elif layout == 'T_ref = first tabulated T, no range':
        ts = [t1] + inner
        g['T_ref'], g['range'] = t1, None
    elif layout == 'T_ref = last tabulated T, no range':
        ts = inner + [t2]
        g['T_ref'], g['range'] = t2, None
    elif layout == 'range = table extremes, T_ref = lower':
        ts = [t1] + inner + [t2]
        g['T_ref'], g['range'] = t1, [t1, t2]
    else:
        ts = inner[:1] + [tie(rng, inner[0] + 1.0, inner[1] - 1.0)] + \
            inner[1:]
        g['T_ref'], g['range'] = ts[1], [inner[0], inner[-1]]
    for t in ts:
        g['Cp'][t] = rng.choice([round(rng.uniform(1, 12), 4), 3.5])
    return g


def check_generated(ctx, case):
    from pgradd.ThermoChem import ThermochemGroup
    rng = random.Random('c18:%s' % case['key'])
    if case.get('tie'):
        g = gen_tie_corr(rng)
        layout = g.pop('layout')
        units = dict(rng.choice(UNIT_CHOICES))
        tu = TIE_T_UNITS[rng.randrange(len(TIE_T_UNITS))]
        ctx.klass('rounding tie shared by two fields: %s, in %s' % (
            layout, tu or 'default K'))
        ctx.count('tie_temperatures_shared_by_two_fields')
    else:
        g = gen_corr(rng)
        units = dict(rng.choice(UNIT_CHOICES))
        tu = rng.choice(T_CHOICES)
    if tu:
        units['temperature'] = tu
    how = rng.choice(['direct', 'loader', 'direct numpy-typed',
                      'direct int-typed', 'direct then update()'])
    if how.startswith('direct'):
        H, S, Cp, Tr, rg = g['H'], g['S'], dict(g['Cp']), g['T_ref'], \
            (tuple(g['range']) if g['range'] else None)
        if how == 'direct numpy-typed':
            import numpy as np
            f = np.float64
            H = None if H is None else f(H)
            S = None if S is None else f(S)
            Cp = dict((f(t), f(v)) for t, v in Cp.items())
            Tr = f(Tr)
            rg = None if rg is None else (f(rg[0]), f(rg[1]))
        elif how == 'direct int-typed':
            # integral values handed over as Python ints
            def i_(x):
                return int(x) if x is not None and float(x) == int(x) and \
                    abs(x) < 1e9 else x
            H, S, Tr = i_(H), i_(S), i_(Tr)
            Cp = dict((i_(t), i_(v)) for t, v in Cp.items())
            rg = None if rg is None else (i_(rg[0]), i_(rg[1]))
        if len(Cp) > 1 and rng.random() < 0.5:
            # the table handed over in another than ascending order
            ks = list(Cp)
            rng.shuffle(ks)
            Cp = dict((k, Cp[k]) for k in ks)
            how += ', Cp supplied unsorted'
        if how.startswith('direct then update()'):
            # the references arrive through a merge into a Cp-only object
            def build():
                # upper half of the table first, the lower half and the
                # references arrive through merges
                ks = sorted(Cp)
                hi_ = dict((k, Cp[k]) for k in ks[len(ks) // 2:])
                lo_ = dict((k, Cp[k]) for k in ks[:len(ks) // 2])
                a = ThermochemGroup(None, None, hi_, Tr, rg)
                a.update(ThermochemGroup(H, S, {}, Tr, rg))
                if lo_:
                    a.update(ThermochemGroup(None, None, lo_, Tr, rg))
                return a
            o = observe(build)
        else:
            o = observe(ThermochemGroup, H, S, Cp, Tr, rg)
    else:
        text = libfiles.render_library({'C(C)(H)3': g})
        with libfiles.TempTree() as tree:
            p = libfiles.write_library(tree, 'library.yaml', text)
            o = observe(lambda: libs.fresh(p)['C(C)(H)3']['thermochem'])
    if 'exc' in o:
        ctx.skip('generator produced data the constructor rejects (%s)'
                 % o['exc'])
        return
    c = dict(case, data=g, units=units, built=how)
    first_ok = roundtrip(ctx, c, o['ok'], units)
    if first_ok and rng.random() < 0.3:
        # copies / unpickled copies of the object format to the same text
        from vmon.core import clones
        clones.agreement(ctx, c, o['ok'], [
            ('yaml_format(units)', lambda x: x.yaml_format(units)),
            ('yaml_format({})', lambda x: x.yaml_format({}))],
            'correlation object', 'after')
    if first_ok and rng.random() < 0.5:
        # the same OBJECT changed through its own API and formatted again
        # with the same unit choice: the text must follow the object
        obj = o['ok']
        ops = []
        if obj.ND_S_ref is not None:
            ops.append(('del_ND_S_ref', lambda: obj.del_ND_S_ref()))
        if obj.ND_H_ref is not None:
            ops.append(('del_ND_H_ref', lambda: obj.del_ND_H_ref()))
        r0 = obj.get_range()
        if r0 is not None:
            ops.append(('set_range', lambda: obj.set_range(
                (r0[0] - 7.0 if r0[0] > 20 else r0[0], r0[1] + 11.0))))
        if ops:
            name, fn = rng.choice(ops)
            mo = observe(fn)
            if 'ok' in mo:
                ctx.count('objects_changed_through_the_api_and_reformatted')
                roundtrip(ctx, dict(c, changed_by=name), obj, units)
    if first_ok:
        ctx.nontrivial(['gen', case['key']])
        ctx.klass('units: %s | T: %s | built: %s' % (
            '+'.join(sorted(k.split()[-1] for k in units
                            if k != 'temperature')) or 'none', tu or 'default',
            how))
        ctx.klass('H %s, S %s' % (
            'absent' if g['H'] is None else 'zero' if g['H'] == 0 else 'value',
            'absent' if g['S'] is None else 'zero' if g['S'] == 0 else
            'value'))
        ctx.sample({'data': g, 'units': units, 'built': how})


def check_shipped(ctx, libname, gname, ui):
    lib = libs.get(libname)
    corr = lib[gname]['thermochem']
    units = dict(UNIT_CHOICES[ui % len(UNIT_CHOICES)])
    if ui % 3 == 1:
        units['temperature'] = 'mK'
    c = {'shipped': [libname, gname], 'units': units, 'ui': ui}
    if roundtrip(ctx, c, corr, units):
        ctx.nontrivial(['shipped', libname, gname, ui])
        ctx.klass('shipped groups')


def check_threads(ctx, key=None, rounds=3):
    """Formatting and reading back are functions of (object, unit choice) and
    of the text: shared correlation objects formatted in several unit choices
    and the texts loaded back, by four threads at once, give the text and the
    object a lone caller gets."""
    from vmon.core import threads as TH
    from pgradd import yaml_io
    from pgradd.ThermoChem import ThermochemGroup
    key = key or 'thr%d_%d' % (ctx.seed, ctx.shard)
    r = random.Random('c18thr:%s' % key)
    datas = []
    while len(datas) < 8:
        g = gen_tie_corr(r) if r.random() < 0.4 else gen_corr(r)
        g.pop('layout', None)
        try:
            ThermochemGroup(g['H'], g['S'], dict(g['Cp']), g['T_ref'],
                            tuple(g['range']) if g['range'] else None)
        except Exception:
            continue
        datas.append(g)
    choices = []
    for g in datas:
        u = dict(r.choice(UNIT_CHOICES))
        tu = r.choice(TIE_T_UNITS)
        if tu:
            u['temperature'] = tu
        choices.append(u)

    def make_jobs():
        jobs = []
        for k, g in enumerate(datas):
            obj = ThermochemGroup(g['H'], g['S'], dict(g['Cp']), g['T_ref'],
                                  tuple(g['range']) if g['range'] else None)
            for j in (0, 1):
                u = choices[(k + j) % len(choices)]
                jobs.append(((k, 'format', j),
                             lambda obj=obj, u=u: obj.yaml_format(u)))

                def back(obj=obj, u=u):
                    doc = '!ThermochemGroup\n' + obj.yaml_format(u) + '\n'
                    return repr(snapshot(yaml_io.load(yaml_io.parse(doc))))
                jobs.append(((k, 'format and load back', j), back))
        return jobs
    res = TH.stress(make_jobs, nthreads=4, rounds=rounds)
    TH.judge(ctx, res, 'yaml_format and loading back',
             {'what': 'thread stress', 'key': key})


def run_shard(ctx):
    if ctx.shard % 4 == 0:
        check_threads(ctx)
    n = 2500 if ctx.tier == 'quick' else 30000
    for i in range(n):
        if ctx.mine(i):
            check_generated(ctx, {'key': 'Y%d_%d' % (ctx.seed, i)})
    for i in range(n // 2):
        if ctx.mine(i):
            check_generated(ctx, {'key': 'Z%d_%d' % (ctx.seed, i),
                                  'tie': True})
    i = 0
    for name in libs.LIBS:
        lib = libs.get(name)
        for g in lib:
            if 'thermochem' not in lib[g]:
                continue
            for ui in ([i % 6] if ctx.tier == 'quick' else range(6)):
                if ctx.mine(i):
                    check_shipped(ctx, name, str(g), ui)
                i += 1


def replay(ctx, case):
    if case.get('what') == 'thread stress':
        return check_threads(ctx, case['key'], rounds=10)
    if 'shipped' in case:
        check_shipped(ctx, case['shipped'][0], case['shipped'][1],
                      case['ui'])
    else:
        check_generated(ctx, dict({'key': case['key']}, **(
            {'tie': True} if case.get('tie') else {})))


def classify(v):
    return None


LEVEL_TEXT = ('Held on every executed (correlation, unit choice): generated '
              'correlations in all presence/zero classes, built directly and '
              'by the loader, and every shipped group, are formatted with '
              'each unit choice and reloaded through both loading routes; '
              'fields are compared exactly (non-dimensional) or to 6 '
              'significant digits. Exploration over data; exhaustive over '
              'shipped groups.')
