"""C06 -- no property is returned outside the valid range unsignalled.

Monitor kind: outcome-class oracle at the API boundary (value / value+warning /
which exception) joined with the object's reported range and with what data
the object has; reference model for the estimate range = intersection.
"""
import math

import numpy as np

from vmon.core.obs import observe, is_plain_number
from vmon.core import libs
from vmon.gen import tables, libfiles
from vmon.gen.synthlib import get_lib

TECHNIQUE = ('runtime monitoring: outcome-class oracle (value, '
             'value+IncompleteDataWarning, exception class) at hostile '
             'temperatures joined with reported ranges; interval-intersection '
             'reference model for estimates')
RULE = ('correlations: the C05 class grid on ThermochemRawData / '
        'ThermochemIncomplete (with and without Cp data, H or S absent) and '
        'every shipped group; estimates: unit vectors and random mappings over '
        'shipped and synthetic libraries mixing ranges, None ranges, groups '
        'without Cp data. Temperatures: lo, nextafter(lo,-inf), lo-1, hi, '
        'nextafter(hi,+inf), hi+1, 0, -1, -300, 1e6, lo/2, 2*hi, interior '
        'points and knots. Non-trivial = an object probed both outside and '
        'inside its reported range; distinct by object data.'
        ' Argument forms for T: float; array [inside, outside]; one-element '
        'array; 0-d array; numpy scalar; int. '
        ' '
        'Rounds 17-19: every copy / pickle of an object held to the'
        ' property itself; one temperature array object moved outside the'
        ' range in place between calls; shared objects probed from four'
        ' threads.')
ASSUMPTIONS = [
    'ranges are positive; correlations without Cp data have T_ref inside '
    'their range; NaN is not a temperature',
    'empty intersections of constituent ranges (constructor asserts) are '
    'counted, not judged: the statement does not say what they should do',
]
CONFIG = {
    'shards': {'quick': 16, 'thorough': 16},
    'min_nontrivial': {'quick': 800, 'thorough': 8000},
}
ANCHORS = [
    'pgradd.ThermoChem.base:ThermochemBase.check_range',
    'pgradd.ThermoChem.base:ThermochemBase.get_range',
    'pgradd.ThermoChem.raw_data:ThermochemRawData.__init__',
    'pgradd.ThermoChem.raw_data:ThermochemRawData.get_CpoR',
    'pgradd.ThermoChem.raw_data:ThermochemRawData.get_SoR',
    'pgradd.ThermoChem.raw_data:ThermochemRawData.get_HoRT',
    'pgradd.ThermoChem.incomplete:ThermochemIncomplete.get_CpoR',
    'pgradd.ThermoChem.incomplete:ThermochemIncomplete.get_HoRT',
    'pgradd.ThermoChem.incomplete:ThermochemIncomplete.get_SoR',
    'pgradd.ThermoChem.group_data:ThermochemGroupAdditive.__init__',
]
PROPS = ['get_CpoR', 'get_HoRT', 'get_SoR', 'get_GoRT']
NEEDS = {'get_CpoR': ('cp',), 'get_HoRT': ('h',), 'get_SoR': ('s',),
         'get_GoRT': ('h', 's')}


def hostile(lo, hi, rng, knots=()):
    outside = [math.nextafter(lo, -math.inf), lo - 1.0, lo - 1e-9 * lo,
               math.nextafter(hi, math.inf), hi + 1.0, hi * (1 + 1e-9),
               0.0, -1.0, -300.0, 1e6, 0.5 * lo, 2.0 * hi]
    inside = [lo, hi, 0.5 * (lo + hi), rng.uniform(lo, hi),
              rng.uniform(lo, hi)]
    inside += [t for t in knots if lo <= t <= hi][:6]
    outside = [t for t in outside if t < lo or t > hi]
    return outside, inside


def judge(ctx, case, label, obj, has, rng_range, cp_free_excluders, rng,
          knots=()):
    """has: set of {'cp','h','s'} the object has data for.
    rng_range: the range the object reports.
    cp_free_excluders(T) -> True iff every constituent whose own range
    excludes T has no Cp data (only then a value+warning is acceptable)."""
    lo, hi = rng_range
    outside, inside = hostile(lo, hi, rng, knots)
    ok = True
    for T in outside:
        for name in PROPS:
            o = observe(getattr(obj, name), T)
            ctx.evals()
            if 'exc' in o:
                ctx.klass('outside: raised %s' % o['exc'])
                continue
            if 'IncompleteDataWarning' in o['warn'] and \
                    cp_free_excluders(T):
                ctx.klass('outside: value + IncompleteDataWarning via '
                          'Cp-free constituent')
                continue
            ok = False
            why = 'silently' if 'IncompleteDataWarning' not in o['warn'] \
                else 'with a warning although the excluding constituent ' \
                     'has Cp data'
            ctx.violation('%s.%s returned a value outside the range %s'
                          % (label, name, why), case,
                          {'T': T, 'range': [lo, hi],
                           'value': repr(o['ok'])})
    # the same question asked with other temperature types: an array that
    # contains an outside temperature (documented: "any temperature in array
    # T"), a 0-d array, a numpy scalar, a Python int
    mid = 0.5 * (lo + hi)
    for T in outside[:3] + outside[-3:]:
        forms = [('array [inside, outside]', np.array([mid, T])),
                 ('array [outside]', np.array([T])),
                 ('0-d array', np.array(T)),
                 ('numpy scalar', np.float64(T))]
        if float(T) == int(T):
            forms.append(('int', int(T)))
        for name in PROPS:
            so = observe(getattr(obj, name), T)
            if 'exc' not in so:
                continue          # judged above
            for fl, TT in forms:
                o = observe(getattr(obj, name), TT)
                ctx.evals()
                if 'exc' in o:
                    ctx.klass('outside (%s): raised' % fl)
                    continue
                ok = False
                ctx.violation('%s.%s returned a value for an outside '
                              'temperature given as %s' % (label, name, fl),
                              case, {'T': T, 'range': [lo, hi],
                                     'value': repr(o['ok'])[:120]})
    # ONE temperature array object walked across the range in place (a grid
    # advanced with `T += dT` between calls): each call is judged on what the
    # array holds NOW
    if outside:
        for name in PROPS:
            if not all(n in has for n in NEEDS[name]):
                continue
            grid = np.array([mid, mid])
            first = observe(getattr(obj, name), grid)
            if 'exc' in first:
                continue
            for T_out in (outside[-1], outside[0]):
                grid[...] = [mid, T_out]
                if 'exc' in observe(getattr(obj, name), np.array(
                        [mid, T_out])):
                    o = observe(getattr(obj, name), grid)
                    ctx.evals()
                    if 'exc' not in o:
                        ok = False
                        ctx.violation(
                            '%s.%s returned values for an array object that '
                            'was inside the range at an earlier call and was '
                            'moved outside in place' % (label, name), case,
                            {'T': T_out, 'range': [lo, hi],
                             'value': repr(o['ok'])[:120]})
                    else:
                        ctx.count('temperature_arrays_moved_outside_in_place')
                grid[...] = [mid, mid]
                observe(getattr(obj, name), grid)
    for T in inside:
        for name in PROPS:
            if not all(n in has for n in NEEDS[name]):
                continue
            o = observe(getattr(obj, name), T)
            ctx.evals()
            if 'exc' in o:
                ok = False
                ctx.violation('%s.%s raised %s inside the range'
                              % (label, name, o['exc']), case,
                              {'T': T, 'range': [lo, hi], 'msg': o['msg']})
                continue
            v = o['ok']
            if not is_plain_number(v) or not math.isfinite(float(v)):
                ok = False
                ctx.violation('%s.%s inside the range is not a finite plain '
                              'number' % (label, name), case,
                              {'T': T, 'value': repr(v)})
                continue
            ctx.klass('inside: finite plain number')
    return ok and bool(outside) and bool(inside)


# ----------------------------------------------------------- correlations
def check_correlation(ctx, case):
    from pgradd.ThermoChem import ThermochemRawData, ThermochemIncomplete
    kind = case['kind']
    rng = ctx.sub_rng('c06', case['T_ref'], case['kind'], len(case['Ts']))
    rr = tuple(case['range'])
    if kind == 'raw':
        o = observe(ThermochemRawData, case['H_ref'], case['S_ref'],
                    case['Ts'], case['Cps'], case['T_ref'], rr)
        has = {'cp', 'h', 's'}
        has_cp = True
    else:
        h = None if kind == 'inc_noH' else case['H_ref']
        s = None if kind == 'inc_noS' else case['S_ref']
        cp = {} if kind == 'inc_noCp' else dict(zip(case['Ts'], case['Cps']))
        o = observe(ThermochemIncomplete, h, s, cp, case['T_ref'], rr)
        has = set()
        if h is not None:
            has.add('h')
        if s is not None:
            has.add('s')
        if cp:
            has.add('cp')
        has_cp = bool(cp)
    if 'exc' in o:
        if case.get('invalid_by_construction'):
            # data the documented constructor contract rejects: fine
            ctx.klass('invalid data rejected by the constructor (%s)'
                      % o['exc'])
            return
        ctx.violation('constructor raised %s' % o['exc'], case,
                      {'msg': o['msg']})
        return
    obj = o['ok']
    if case.get('invalid_by_construction'):
        # ... but an object that IS handed out is held to the property
        ctx.klass('object built from data outside the constructor contract')
    rep = observe(obj.get_range)
    if 'exc' in rep or rep['ok'] is None or \
            tuple(rep['ok']) != rr:
        ctx.violation('get_range() does not report the supplied range', case,
                      {'reported': repr(rep.get('ok')), 'supplied': rr})
        return
    first = judge(ctx, case, kind, obj, has, rr, lambda T: not has_cp, rng,
                  knots=case['Ts'])
    if first and int(case['T_ref'] * 1000) % 3 == 0:
        # copy.copy / deepcopy / pickle clones of the object are objects like
        # any other: each is held to the property itself
        from vmon.core import clones
        made, failed = clones.make(obj)
        for label, why in failed:
            ctx.skip('%s of a correlation not possible (%s)' % (label, why))
        for label, c_ in made:
            rep_c = observe(c_.get_range)
            if 'exc' in rep_c or rep_c['ok'] is None or \
                    tuple(rep_c['ok']) != rr:
                ctx.violation('a %s of the object reports another range'
                              % label, case,
                              {'reported': repr(rep_c.get('ok')),
                               'supplied': rr})
                return
            if not judge(ctx, dict(case, clone=label), '%s (%s)' % (
                    kind, label), c_, has, rr, lambda T: not has_cp, rng,
                    knots=case['Ts']):
                return
            ctx.count('clones_held_to_the_property')
    if first and kind != 'raw' and not case.get('invalid_by_construction'):
        # a COPY of the object is given a wider range (set_range, and a merge
        # with a wider-ranged twin): the original still answers for its own
        wide = (rr[0] - 40.0 if rr[0] > 60 else rr[0] * 0.5, rr[1] + 300.0)
        for how in ('set_range', 'update'):
            co = observe(obj.copy)
            if 'exc' in co:
                break
            twin = co['ok']
            if how == 'set_range':
                mo = observe(twin.set_range, wide)
            else:
                mo = observe(twin.update, type(obj)(None, None, {},
                                                    case['T_ref'], wide))
            if 'exc' in mo:
                continue
            rep2 = observe(obj.get_range)
            if 'exc' in rep2 or tuple(rep2['ok']) != rr:
                ctx.violation('changing the range of a copy (%s) changed the '
                              'range the original reports' % how, case,
                              {'reported': repr(rep2.get('ok'))})
                return
            if not judge(ctx, dict(case, after_copy=how), kind + ' after its '
                         'copy was widened by ' + how, obj, has, rr,
                         lambda T: not has_cp, rng, knots=case['Ts']):
                return
            ctx.count('originals_probed_after_their_copy_was_widened')
    if first:
        ctx.nontrivial([kind, case['Ts'], case['Cps'], case['T_ref'], rr])
        ctx.sample({'object': kind, 'range': rr, 'T_ref': case['T_ref'],
                    'n_points': len(case['Ts'])})


def check_shipped_group(ctx, libname, gname):
    lib = libs.get(libname)
    c = lib[gname]['thermochem']
    case = {'shipped': [libname, gname]}
    rr = c.get_range()
    if rr is None:
        ctx.skip('shipped group without a range')
        return
    has = set()
    if c.ND_H_ref is not None:
        has.add('h')
    if c.ND_S_ref is not None:
        has.add('s')
    if c.ND_Cp_data:
        has.add('cp')
    has_cp = bool(c.ND_Cp_data)
    rng = ctx.sub_rng('c06s', libname, gname)
    if judge(ctx, case, 'ThermochemGroup', c, has, tuple(rr),
             lambda T: not has_cp, rng, knots=sorted(c.ND_Cp_data or {})):
        ctx.nontrivial(['shipped', libname, gname])


# --------------------------------------------------------------- estimates
def check_estimate(ctx, case):
    lib = get_lib(case['lib'])
    pairs = case['mapping']
    cons = [lib[k]['thermochem'] for k, _ in pairs]
    ranges = [c.get_range() for c in cons]
    real = [r for r in ranges if r is not None]
    want = None
    if real:
        want = (max(r[0] for r in real), min(r[1] for r in real))
    o = observe(lib.Estimate, dict((k, c) for k, c in pairs), 'thermochem')
    ctx.evals()
    if want is not None and want[0] > want[1]:
        ctx.skip('empty intersection of constituent ranges (%s)'
                 % ('raised ' + o['exc'] if 'exc' in o else 'returned'))
        return
    if 'exc' in o:
        uq = getattr(lib, 'uq_contents', None)
        if uq and o['exc'] == 'ValueError':
            ctx.skip('descriptor outside the uncertainty basis (C20)')
            return
        ctx.violation('Estimate raised %s' % o['exc'], case,
                      {'msg': o['msg']})
        return
    est = o['ok']
    rep = observe(est.get_range)
    got = rep.get('ok')
    if (want is None) != (got is None) or (
            want is not None and (float(got[0]) != float(want[0]) or
                                  float(got[1]) != float(want[1]))):
        ctx.violation('estimate range != intersection of constituent ranges',
                      case, {'reported': repr(got), 'intersection': want,
                             'constituent_ranges': [list(r) if r else None
                                                    for r in ranges]})
        return
    ctx.klass('estimate range == intersection (%d ranged constituents)'
              % min(len(real), 4))
    if want is None:
        ctx.skip('estimate without any ranged constituent')
        return
    has = {'cp', 'h', 's'}
    for c in cons:
        if c.ND_H_ref is None:
            has.discard('h')
        if c.ND_S_ref is None:
            has.discard('s')
        if not c.ND_Cp_data:
            has.discard('cp')

    def cp_free_excluders(T):
        ex = [c for c, r in zip(cons, ranges)
              if r is not None and (T < r[0] or T > r[1])]
        return bool(ex) and all(not c.ND_Cp_data for c in ex)
    rng = ctx.sub_rng('c06e', *[k for k, _ in pairs][:3])
    knots = sorted(set(t for c in cons for t in (c.ND_Cp_data or {})))
    if judge(ctx, case, 'estimate', est, has, want, cp_free_excluders, rng,
             knots=knots):
        ctx.nontrivial(['est', case['lib'], pairs])
        ctx.sample({'lib': case['lib'], 'mapping': pairs[:4],
                    'reported_range': list(got),
                    'constituent_ranges': [list(r) if r else None
                                           for r in ranges][:4]})


# ---------------------------------------------------------------- workload
def check_threads(ctx, cases=None, rounds=3):
    """Whether a temperature is answered or refused is a function of (object,
    T): shared correlations probed inside, on and outside their ranges by
    four threads at once answer and refuse as for a lone caller."""
    from vmon.core import threads as TH
    from vmon.props.c05 import build
    if cases is None:
        cases = []
        for k, n in enumerate((3, 4, 7, 12)):
            r = ctx.sub_rng('c06thr', ctx.shard, n)
            cases.append(tables.make_case(r, n, tables.PLACEMENTS[
                (k + ctx.shard) % len(tables.PLACEMENTS)],
                tables.RANGES[k % len(tables.RANGES)], 'sorted'))

    def make_jobs():
        jobs = []
        for ci, case in enumerate(cases):
            for surface in ('raw', 'incomplete'):
                obj = build(case, surface)
                rg = obj.get_range()
                lo, hi = rg if rg is not None else (min(case['Ts']),
                                                    max(case['Ts']))
                probes = [lo, hi, 0.5 * (lo + hi), lo * (1 - 1e-12),
                          hi * (1 + 1e-12), lo - 50.0, hi + 50.0]
                for name in ('get_CpoR', 'get_HoRT', 'get_SoR', 'get_GoRT'):
                    for T in probes:
                        jobs.append(((ci, surface, name, T),
                                     lambda f=getattr(obj, name), T=T:
                                     repr(float(f(T)))))
        return jobs
    res = TH.stress(make_jobs, nthreads=4, rounds=rounds)
    TH.judge(ctx, res, 'range checks on shared correlations',
             {'what': 'thread stress', 'cases': cases})


def run_shard(ctx):
    if ctx.shard % 4 == 2:
        check_threads(ctx)
    i = 0
    grid = tables.class_grid(16)
    reps = 1 if ctx.tier == 'quick' else 8
    kinds = ['raw', 'inc', 'inc_noCp', 'inc_noH', 'inc_noS']
    for rep in range(reps):
        for (n, pl, rg, od) in grid:
            if od != 'sorted':
                continue
            for kind in kinds:
                if ctx.mine(i):
                    r = ctx.sub_rng('c06case', n, pl, rg, kind, rep)
                    case = tables.make_case(r, n, pl, rg, od)
                    case['kind'] = kind
                    check_correlation(ctx, case)
                i += 1
    # data the constructors are documented to reject (T_ref or a data point
    # outside the declared range): either rejected, or -- if an object comes
    # back -- an object like any other
    for rep in range(reps):
        for kind in kinds:
            if kind == 'inc_noCp':
                # without Cp data there is no constructor contract to speak
                # of: the reference value IS the datum at T_ref, whatever the
                # declared range says (see DESIGN appendix A)
                continue
            for j in range(6):
                if ctx.mine(i):
                    r = ctx.sub_rng('c06bad', kind, rep, j)
                    case = tables.make_case(r, r.choice([3, 4, 7]),
                                            'inside', 'tight', 'sorted')
                    lo, hi = case['range']
                    how = j % 3
                    if how == 0:        # T_ref just below the range
                        case['T_ref'] = lo - r.choice([1.85, 0.5, 50.0])
                    elif how == 1:      # T_ref above the range
                        case['T_ref'] = hi + r.choice([1.0, 200.0])
                    else:               # range cut inside the table
                        ts = sorted(case['Ts'])
                        if len(ts) < 2:
                            case['T_ref'] = lo - 1.85
                        else:
                            case['range'] = [0.5 * (ts[0] + ts[1]), hi]
                            case['T_ref'] = max(case['T_ref'],
                                                case['range'][0])
                    case['kind'] = kind
                    case['invalid_by_construction'] = True
                    check_correlation(ctx, case)
                i += 1
    for name in libs.LIBS:
        lib = libs.get(name)
        for g in lib:
            if 'thermochem' in lib[g]:
                if ctx.mine(i):
                    check_shipped_group(ctx, name, str(g))
                i += 1
    specs = list(libs.LIBS) + [['synthetic', 'r%d_%d' % (ctx.seed, k)]
                               for k in range(12 if ctx.tier == 'quick'
                                              else 80)]
    per = 60 if ctx.tier == 'quick' else 400
    for spec in specs:
        lib = get_lib(spec)
        names = [str(g) for g in lib if 'thermochem' in lib[g]]
        uq = getattr(lib, 'uq_contents', None)
        if uq:
            basis = [str(d) for d in uq['descriptors']]
            names = [n for n in names if n in basis]
        if not names:
            continue
        for j in range(per):
            if ctx.mine(i):
                r = ctx.sub_rng('c06map', spec, j)
                ks = r.sample(names, min(len(names), r.randint(1, 5)))
                pairs = [[k, r.choice([1, 2, -1, 0.5, 3])] for k in ks]
                check_estimate(ctx, {'lib': spec, 'mapping': pairs})
            i += 1


def replay(ctx, case):
    if case.get('what') == 'thread stress':
        return check_threads(ctx, case['cases'], rounds=12)
    if 'shipped' in case:
        check_shipped_group(ctx, *case['shipped'])
    elif 'mapping' in case:
        check_estimate(ctx, case)
    else:
        check_correlation(ctx, case)


def classify(v):
    return None


LEVEL_TEXT = ('Held on every probed object: all correlation classes of the '
              'C05 grid in five data-presence variants, every shipped group, '
              'and sampled estimates on shipped and synthetic libraries, each '
              'probed at 12 hostile temperatures outside and >=5 inside its '
              'reported range; the oracle classifies each outcome (value, '
              'value+warning, exception) against the reported range and the '
              'data present. Exploration (sampled values and mappings).')
