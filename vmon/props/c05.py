"""C05 -- correlations are thermodynamically consistent with their data.

Monitor kind: reference-model / relational oracle on observed get_* values.
The integral oracle states the property literally on the *observed* get_CpoR
using the harness's own Gauss-Legendre quadrature; it never calls
spline.integral, scipy.quad or any of the branch logic under test.
"""
import math

import numpy as np

from vmon.core.obs import observe, is_plain_number, close
from vmon.gen import tables

TECHNIQUE = ('runtime monitoring: relational oracle (own quadrature of the '
             'observed Cp vs observed H and S) over an exhaustively enumerated '
             'class grid with random values, + every shipped group')
RULE = ('class grid N(1..16) x T_ref placement(6) x range class(2) x supply '
        'order(3) enumerated exhaustively, random values per class, on '
        'ThermochemRawData and ThermochemIncomplete; plus every group of the '
        '9 shipped libraries. Non-trivial = a correlation whose relations '
        '(i)-(vi) were all evaluated at >=5 temperatures; distinct by data.'
        ' Argument forms: scalar float T; the array form of get_CpoR on '
        'every surface. '
        ' '
        'Rounds 17-19: shared never-evaluated objects evaluated from four'
        ' threads; copies / pickles made before and after first use; objects'
        ' that went through a refused merge (stored data unchanged, own'
        ' copy() evaluates alike).')
ASSUMPTIONS = [
    'positive temperatures, distinct tabulated temperatures',
    'numpy/scipy InterpolatedUnivariateSpline is a black-box interpolant '
    '(piecewise polynomial of degree <=3 between data points)',
    'tolerances: 1e-9 relative to the L1 norm of the observed integrand for '
    'the H and S relations (the code integrates Cp/T numerically, piecewise '
    'between data points)',
]
CONFIG = {
    'shards': {'quick': 16, 'thorough': 16},
    'min_nontrivial': {'quick': 300, 'thorough': 3000},
    'exhaustive': False,
}
ANCHORS = [
    'pgradd.ThermoChem.raw_data:ThermochemRawData.__init__',
    'pgradd.ThermoChem.raw_data:ThermochemRawData.get_CpoR',
    'pgradd.ThermoChem.raw_data:ThermochemRawData.get_SoR',
    'pgradd.ThermoChem.raw_data:ThermochemRawData.get_HoRT',
    'pgradd.ThermoChem.incomplete:ThermochemIncomplete._setup_correlation',
    'pgradd.ThermoChem.incomplete:ThermochemIncomplete.get_HoRT',
    'pgradd.ThermoChem.incomplete:ThermochemIncomplete.get_SoR',
    'pgradd.ThermoChem.incomplete:ThermochemIncomplete.get_CpoR',
    'pgradd.ThermoChem.base:ThermochemBase.get_GoRT',
]


def build(case, surface, order=True):
    from pgradd.ThermoChem import ThermochemRawData, ThermochemIncomplete
    ts, cps = case['Ts'], case['Cps']
    if order:
        ts = [ts[i] for i in case['perm']]
        cps = [cps[i] for i in case['perm']]
    rng = tuple(case['range']) if case.get('range') is not None else None
    if surface == 'raw':
        return ThermochemRawData(case['H_ref'], case['S_ref'], ts, cps,
                                 case['T_ref'], rng)
    return ThermochemIncomplete(case['H_ref'], case['S_ref'],
                                dict(zip(ts, cps)), case['T_ref'], rng)


def _num(ctx, case, what, T, o):
    """An observation that must be a plain finite number."""
    if 'exc' in o:
        ctx.violation('%s raised %s' % (what, o['exc']), case,
                      {'T': T, 'exc': o['exc'], 'msg': o['msg']})
        return None
    v = o['ok']
    if not is_plain_number(v) or not math.isfinite(float(v)):
        ctx.violation('%s not a finite plain number' % what, case,
                      {'T': T, 'value': repr(v), 'type': type(v).__name__})
        return None
    return float(v)


def check_relations(ctx, case, obj, temps, label):
    """Relations (i)-(v) on one correlation object.  Returns the table of
    observed values {T: (Cp, H, S, G)} or None."""
    ts = sorted(case['Ts'])
    cp_at = dict(zip(case['Ts'], case['Cps']))
    lo, hi = case['range']
    n_bad = len(ctx.violations)
    vals = {}
    for T in temps:
        cp = _num(ctx, case, label + '.get_CpoR', T, observe(obj.get_CpoR, T))
        h = _num(ctx, case, label + '.get_HoRT', T, observe(obj.get_HoRT, T))
        s = _num(ctx, case, label + '.get_SoR', T, observe(obj.get_SoR, T))
        g = _num(ctx, case, label + '.get_GoRT', T, observe(obj.get_GoRT, T))
        ctx.evals(4)
        if None in (cp, h, s, g):
            return None
        vals[T] = (cp, h, s, g)
        # (v) G = H - S
        if not close(g, h - s, rel=1e-12, abs_=1e-12,
                     scale=abs(h) + abs(s)):
            ctx.violation('GoRT != HoRT - SoR', case,
                          {'T': T, 'G': g, 'H': h, 'S': s, 'surface': label})
    cpmax = max(abs(c) for c in case['Cps']) + 1.0
    # (i') the array form of get_CpoR (documented: `T` or an array of `T`)
    # is the scalar form element by element
    if len(vals) >= 2:
        order_ = sorted(vals)
        ao = observe(obj.get_CpoR, np.array(order_, dtype=float))
        ctx.evals()
        if 'exc' in ao:
            ctx.violation('get_CpoR(array of in-range T) raised %s'
                          % ao['exc'], case, {'msg': ao['msg'],
                                              'surface': label})
        else:
            arr = np.asarray(ao['ok'], dtype=float)
            if arr.shape != (len(order_),) or any(
                    not close(float(arr[i]), vals[T][0], rel=1e-12,
                              abs_=1e-12 * cpmax)
                    for i, T in enumerate(order_)):
                ctx.violation('get_CpoR(array) differs from the scalar calls',
                              case, {'array': repr(arr)[:200],
                                     'scalars': [vals[T][0] for T in order_][:8],
                                     'surface': label})
            else:
                ctx.count('array_T_evaluations', len(order_))
    # (i) tabulated points reproduced
    for T in ts:
        if T in vals and not close(vals[T][0], cp_at[T], rel=1e-9,
                                   abs_=1e-9 * cpmax):
            ctx.violation('CpoR(T_i) != tabulated Cp_i', case,
                          {'T': T, 'got': vals[T][0], 'want': cp_at[T],
                           'surface': label})
    # (ii) constant continuation outside the table
    for T in vals:
        if T < ts[0] and not close(vals[T][0], cp_at[ts[0]], rel=1e-12):
            ctx.violation('Cp below table != first value', case,
                          {'T': T, 'got': vals[T][0], 'want': cp_at[ts[0]],
                           'surface': label})
        if T > ts[-1] and not close(vals[T][0], cp_at[ts[-1]], rel=1e-12):
            ctx.violation('Cp above table != last value', case,
                          {'T': T, 'got': vals[T][0], 'want': cp_at[ts[-1]],
                           'surface': label})
    # (iii) reference values at T_ref
    Tr = case['T_ref']
    if Tr in vals:
        if not close(vals[Tr][1], case['H_ref'], rel=1e-12,
                     abs_=1e-12 * (abs(case['H_ref']) + cpmax)):
            ctx.violation('HoRT(T_ref) != H_ref [%s]' % _placement(case), case,
                          {'got': vals[Tr][1], 'want': case['H_ref'],
                           'surface': label})
        if not close(vals[Tr][2], case['S_ref'], rel=1e-12,
                     abs_=1e-12 * (abs(case['S_ref']) + cpmax)):
            ctx.violation('SoR(T_ref) != S_ref [%s]' % _placement(case), case,
                          {'got': vals[Tr][2], 'want': case['S_ref'],
                           'surface': label})
    # (iv) integral relations, cumulative from the lowest probe temperature
    order = sorted(vals)
    if len(order) >= 2:
        def f(tarr):
            out = np.empty(len(tarr))
            for i, t in enumerate(tarr):
                out[i] = obj.get_CpoR(float(t))
            return out
        ctx.count('quadrature_pieces', len(order) - 1)
        T0 = order[0]
        cumH = 0.0
        cumS = 0.0
        scaleH = abs(T0 * vals[T0][1])
        scaleS = abs(vals[T0][2])
        worstH = worstS = 0.0
        for a, b in zip(order, order[1:]):
            try:
                iH = tables.integrate_pieces(f, a, b, ts)
                iS = tables.integrate_pieces(f, a, b, ts,
                                             weight=lambda t: 1.0 / t)
            except Exception as exc:
                ctx.violation('get_CpoR raised inside range', case,
                              {'a': a, 'b': b, 'exc': type(exc).__name__,
                               'surface': label})
                return None
            cumH += iH
            cumS += iS
            # tolerances are relative to the L1 norm of the observed
            # integrand (an interpolant may overshoot the tabulated values)
            scaleH += max(cpmax * (b - a), tables.integrate_pieces(
                lambda t: np.abs(f(t)), a, b, ts))
            scaleS += max(cpmax * math.log(b / a), tables.integrate_pieces(
                lambda t: np.abs(f(t)), a, b, ts, weight=lambda t: 1.0 / t))
            dH = b * vals[b][1] - T0 * vals[T0][1]
            dS = vals[b][2] - vals[T0][2]
            eH = abs(dH - cumH) / (1e-9 * scaleH + 1e-9)
            eS = abs(dS - cumS) / (1e-9 * scaleS + 1e-9)
            worstH = max(worstH, eH)
            worstS = max(worstS, eS)
            if eH > 1.0:
                ctx.violation(
                    'T*HoRT change != integral of Cp [%s]' % _placement(case),
                    case, {'T1': T0, 'T2': b, 'observed_change': dH,
                           'integral_of_observed_Cp': cumH,
                           'surface': label})
                break
            if eS > 1.0:
                ctx.violation(
                    'SoR change != integral of Cp/T [%s]' % _placement(case),
                    case, {'T1': T0, 'T2': b, 'observed_change': dS,
                           'integral_of_observed_Cp_over_T': cumS,
                           'surface': label})
                break
        ctx.maximum('worst_H_err_over_tol', worstH)
        ctx.maximum('worst_S_err_over_tol', worstS)
    if len(ctx.violations) != n_bad:
        return None
    return vals


def _placement(case):
    k = case.get('klass')
    return 'T_ref %s' % k[1] if k else 'shipped'


def check_case(ctx, case):
    rng = ctx.sub_rng('temps', case['T_ref'], case['Ts'][0], len(case['Ts']))
    temps = tables.probe_temperatures(rng, case)
    surfaces = case.get('surfaces', ['raw', 'incomplete'])
    tables_by_surface = {}
    complete = True
    for surface in surfaces:
        o = observe(build, case, surface)
        if 'exc' in o:
            ctx.violation('constructor raised %s' % o['exc'], case,
                          {'surface': surface, 'msg': o['msg']})
            return
        vals = check_relations(ctx, case, o['ok'], temps, surface)
        if surface == 'incomplete' and len(case['Ts']) >= 2 and \
                int(case['T_ref'] * 1000) % 2 == 0:
            # ROUTE: the object has been through a merge that was refused (a
            # twin with new temperatures before and after a conflicting value
            # at a temperature both have).  It is still the correlation of
            # ITS data: same stored data as before, and its own copy() --
            # rebuilt from the stored data -- evaluates like it.
            from vmon.core import clones, digests
            from pgradd.ThermoChem import ThermochemIncomplete
            victim = build(case, surface)
            ts_ = sorted(case['Ts'])
            tw = {ts_[0] - 7.5: 2.0, ts_[0]: case['Cps'][case['Ts'].index(
                ts_[0])] + 1.0, ts_[-1] + 7.5: 3.0}
            lo_, hi_ = (case['range'] if case.get('range') else
                        (ts_[0], ts_[-1]))
            twin = observe(ThermochemIncomplete, None, None, tw,
                           case['T_ref'], (min(lo_, ts_[0] - 7.5,
                                               case['T_ref']),
                                           max(hi_, ts_[-1] + 7.5,
                                               case['T_ref'])))
            if 'ok' in twin:
                before = digests.correlation_fields(victim)
                uo = observe(victim.update, twin['ok'])
                ctx.evals()
                if 'exc' in uo:
                    after = digests.correlation_fields(victim)
                    if after != before:
                        ctx.violation('a merge that was refused changed the '
                                      'stored data of the object', dict(
                                          case, surface=surface),
                                      {'raised': uo['exc'],
                                       'before': repr(before)[:300],
                                       'after': repr(after)[:300]})
                        return
                    calls = [('%s(%r)' % (nm, T), lambda o_, nm=nm, T=T: repr(
                        float(getattr(o_, nm)(T))))
                        for nm in ('get_CpoR', 'get_HoRT', 'get_SoR')
                        for T in temps[:3]]
                    clones.agreement(ctx, dict(case, surface=surface,
                                               route='after a refused merge'),
                                     victim, calls, 'correlation object that '
                                     'went through a refused merge', 'after')
                    ctx.count('objects_checked_after_a_refused_merge')
        if int(case['T_ref'] * 1000) % 3 == 0 or case.get('long_table'):
            # copies and unpickled copies of the object are the same
            # functions (made before / after the object's first use)
            from vmon.core import clones
            fresh_obj = build(case, surface)
            calls = [('%s(%r)' % (nm, T), lambda o_, nm=nm, T=T: repr(float(
                getattr(o_, nm)(T))))
                for nm in ('get_SoR', 'get_HoRT', 'get_CpoR', 'get_GoRT')
                for T in temps[:3]]
            clones.agreement(ctx, dict(case, surface=surface), fresh_obj,
                             calls, 'correlation object',
                             'before' if len(case['Ts']) % 2 else 'after')
        if vals is None:
            complete = False
            continue
        tables_by_surface[surface] = vals
    # (vi) supply order: the sorted presentation must give the same functions
    if 'raw' in surfaces and case['perm'] != sorted(case['perm']):
        o = observe(build, case, 'raw', False)
        if 'exc' in o:
            ctx.violation('constructor raised %s' % o['exc'], case,
                          {'surface': 'raw-sorted', 'msg': o['msg']})
            return
        ref = o['ok']
        got = tables_by_surface.get('raw')
        obj = build(case, 'raw')
        for T in temps:
            for name in ('get_CpoR', 'get_HoRT', 'get_SoR', 'get_GoRT'):
                a = observe(getattr(obj, name), T)
                b = observe(getattr(ref, name), T)
                ctx.evals(2)
                if ('ok' in a) != ('ok' in b) or (
                        'ok' in a and not close(a['ok'], b['ok'], rel=1e-9,
                                                abs_=1e-9)):
                    ctx.violation(
                        'result depends on supply order of data points', case,
                        {'T': T, 'method': name,
                         'as_supplied': a.get('ok', a.get('exc')),
                         'sorted': b.get('ok', b.get('exc'))})
                    complete = False
                    break
            else:
                continue
            break
        del got
    # (vii) a SIBLING table on the same temperatures, alive in the same
    # process: each of the two correlations still reproduces ITS OWN points
    # (anything remembered per grid, per first value, per hash of the table
    # would mix them up)
    if 'raw' in surfaces and case.get('sibling') is not False and \
            not case.get('_is_sibling'):
        for how, f in (('negated', lambda v: -v), ('plus one', lambda v: v + 1),
                       ('-1 <-> -2', None)):
            sib = dict(case, _is_sibling=True)
            if f is None:
                # two tables of -1.0s and -2.0s (numbers whose hashes
                # coincide) on this grid
                first = dict(case, _is_sibling=True, Cps=[-1.0] * len(
                    case['Cps']), H_ref=-1.0, S_ref=-1.0)
                sib = dict(first, Cps=[-2.0] * len(case['Cps']), H_ref=-2.0,
                           S_ref=-2.0)
            else:
                first = case
                sib['Cps'] = [f(v) for v in case['Cps']]
            oa = observe(build, first, 'raw')
            ob = observe(build, sib, 'raw')
            if 'exc' in oa or 'exc' in ob:
                continue
            for who, obj, cs in (('first', oa['ok'], first),
                                 ('sibling', ob['ok'], sib)):
                for T, want in zip(cs['Ts'], cs['Cps']):
                    g = observe(obj.get_CpoR, T)
                    ctx.evals()
                    if 'exc' in g or not close(g['ok'], want, rel=1e-9,
                                               abs_=1e-9 * (abs(want) + 1)):
                        ctx.violation('a correlation built next to a sibling '
                                      'table (%s) does not reproduce its own '
                                      'points' % how, case,
                                      {'which': who, 'T': T, 'want': want,
                                       'got': repr(g.get('ok', g.get('exc')))})
                        complete = False
                        break
                else:
                    continue
                break
        ctx.count('sibling_tables_checked', 3)
    # raw vs incomplete agree
    if 'raw' in tables_by_surface and 'incomplete' in tables_by_surface:
        A, B = tables_by_surface['raw'], tables_by_surface['incomplete']
        for T in A:
            for i, name in enumerate(('Cp', 'H', 'S', 'G')):
                if not close(A[T][i], B[T][i], rel=1e-9, abs_=1e-9):
                    ctx.violation('incomplete wrapper differs from table '
                                  'correlation', case,
                                  {'T': T, 'prop': name, 'raw': A[T][i],
                                   'incomplete': B[T][i]})
                    complete = False
    if complete and len(temps) >= 5:
        ctx.nontrivial([case['Ts'], case['Cps'], case['H_ref'], case['S_ref'],
                        case['T_ref'], case['range'], case['perm']])
        if case.get('klass'):
            ctx.klass('N=%d' % case['klass'][0])
            ctx.klass('T_ref %s' % case['klass'][1])
            ctx.klass('range %s' % case['klass'][2])
            ctx.klass('order %s' % case['klass'][3])
        ctx.sample({'case': {k: case[k] for k in ('Ts', 'Cps', 'H_ref',
                                                   'S_ref', 'T_ref', 'range',
                                                   'perm')},
                    'n_temperatures': len(temps),
                    'HoRT_at_T_ref': tables_by_surface.get(
                        surfaces[0], {}).get(case['T_ref'], [None] * 2)[1]})


def shipped_cases():
    """Every group of every shipped library as a case whose data are read from
    the loaded object's own fields."""
    from vmon.core import libs
    out = []
    for name in libs.LIBS:
        lib = libs.get(name)
        for g in lib:
            ps = lib[g]
            if 'thermochem' in ps:
                out.append((name, str(g)))
    return out


def check_shipped(ctx, libname, gname):
    from vmon.core import libs
    lib = libs.get(libname)
    c = lib[gname]['thermochem']
    case = {'shipped': [libname, gname]}
    data = c.ND_Cp_data or {}
    fields = {'ND_H_ref': c.ND_H_ref, 'ND_S_ref': c.ND_S_ref,
              'T_ref': c.T_ref}
    for k, v in fields.items():
        if v is not None and not is_plain_number(v):
            ctx.violation('shipped group stores %s that is not a plain number'
                          % k, case, {'value': repr(v)})
            return
    if not data or c.ND_H_ref is None or c.ND_S_ref is None:
        ctx.skip('shipped group without a full (Cp,H,S) data set')
        return
    ts = sorted(float(t) for t in data)
    full = {'Ts': ts, 'Cps': [float(data[t]) for t in sorted(data)],
            'H_ref': float(c.ND_H_ref), 'S_ref': float(c.ND_S_ref),
            'T_ref': float(c.T_ref),
            'range': list(c.get_range() or (min(ts + [c.T_ref]),
                                            max(ts + [c.T_ref]))),
            'perm': list(range(len(ts))), 'shipped': [libname, gname]}
    rng = ctx.sub_rng('shipped', libname, gname)
    temps = tables.probe_temperatures(rng, full, extra_random=3)
    vals = check_relations(ctx, full, c, temps, 'ThermochemGroup')
    if vals is not None:
        ctx.nontrivial(['shipped', libname, gname])
        ctx.klass('shipped groups')


def cases_for(ctx):
    grid = tables.class_grid(16)
    reps = 1 if ctx.tier == 'quick' else 12
    i = 0
    for rep in range(reps):
        for (n, pl, rg, od) in grid:
            if ctx.mine(i):
                r = ctx.sub_rng('case', n, pl, rg, od, rep)
                yield tables.make_case(r, n, pl, rg, od)
            i += 1


def long_table_cases(ctx):
    """Tables far longer than any shipped one (17..130 points): every count
    around the integrator's default subinterval limit and around multiples
    of 32 / 33, with T_ref below, inside and above."""
    i = 0
    for n in (17, 31, 32, 33, 34, 35, 48, 49, 50, 51, 52, 64, 65, 66, 67, 99,
              100, 130):
        for pl in tables.PLACEMENTS:
            for od in ('sorted', 'shuffled'):
                if ctx.mine(i) and (ctx.tier == 'thorough' or
                                    (i + ctx.seed) % 6 == 0):
                    r = ctx.sub_rng('long', n, pl, od)
                    c = tables.make_case(r, n, pl, 'wide', od)
                    c['long_table'] = True
                    yield c
                i += 1


def thread_cases(ctx):
    out = []
    for k, n in enumerate((4, 5, 7, 9, 12, 16, 33)):
        r = ctx.sub_rng('thr', ctx.shard, n)
        out.append(tables.make_case(r, n, tables.PLACEMENTS[
            (k + ctx.shard) % len(tables.PLACEMENTS)], 'wide', 'sorted'))
    return out


def check_threads(ctx, cases=None, rounds=4):
    """A correlation is a function of its data: the same objects evaluated
    from several threads at once -- including each object's very first
    evaluation -- must give what fresh objects of the same data give when
    evaluated alone."""
    from vmon.core import threads as TH
    if cases is None:
        cases = thread_cases(ctx)

    def make_jobs():
        jobs = []
        for ci, case in enumerate(cases):
            ts = sorted(case['Ts'])
            probes = [ts[0], (ts[0] + ts[1]) / 2.0, ts[len(ts) // 2],
                      (ts[-2] + ts[-1]) / 2.0, ts[-1]]
            for surface in ('raw', 'incomplete'):
                obj = build(case, surface)
                for name in ('get_SoR', 'get_HoRT', 'get_GoRT', 'get_CpoR'):
                    for T in probes:
                        def thunk(f=getattr(obj, name), T=T):
                            return repr(float(f(T)))
                        jobs.append(((ci, surface, name, T), thunk))
        return jobs
    res = TH.stress(make_jobs, nthreads=4, rounds=rounds)
    TH.judge(ctx, res, 'correlation evaluation',
             {'what': 'thread stress', 'cases': cases})


def run_shard(ctx):
    if ctx.shard % 4 == 3:
        check_threads(ctx)
    for case in cases_for(ctx):
        check_case(ctx, case)
    for case in long_table_cases(ctx):
        ctx.count('long_tables')
        check_case(ctx, case)
    for j, (lib, g) in enumerate(shipped_cases()):
        if ctx.mine(j):
            check_shipped(ctx, lib, g)


def replay(ctx, case):
    if case.get('what') == 'thread stress':
        return check_threads(ctx, case['cases'], rounds=16)
    if 'klass' in case or 'perm' in case and 'shipped' not in case:
        check_case(ctx, case)
    else:
        check_shipped(ctx, *case['shipped'])


def classify(v):
    return None

LEVEL_TEXT = ('Held on every executed case of an exhaustively enumerated class '
              'grid (N x T_ref placement x range x supply order) with random '
              'values, on both correlation classes and on every shipped group: '
              'each relation of the statement is evaluated on observed values '
              'with an integration oracle that shares no code with the '
              'library. Exploration, not proof: values inside a class are '
              'sampled.')
