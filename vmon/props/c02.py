"""C02 -- descriptors equal the scheme file's declared decomposition.

Monitor kind: reference model (refs/scheme.py: an independent interpreter of
the scheme file, own RING front end + own matcher + own group naming) run
beside GetDescriptors; per-atom comparison through the PGRADD_VERIF hook;
exception-class oracle for the failure clause.
"""
import collections
import os
import random

from rdkit import Chem

from vmon.core.obs import observe
from vmon.core import libs
from vmon.gen import molecules, libfiles
from vmon.refs import ring as R
from vmon.refs import scheme as S

TECHNIQUE = ('runtime monitoring: reference-model oracle (independent scheme '
             'interpreter) on whole mappings and, through the guarded hook, '
             'on every atom\'s centre / peripheral / group name and every '
             'normalised bond; exception-class oracle for the failure clause')
RULE = ('molecules: exhaustive C/O (N for Benson/PPY) skeletons up to 3 '
        '(thorough 4) heavy atoms with radicals, curated motif list (~300) and pairs of motifs joined into one molecule, '
        'random grown molecules to 10 (thorough 14) heavy atoms, adsorbates '
        'on Pt (Ru for XieGA2022), molecules outside the vocabulary; schemes: '
        'the 9 shipped ones and generated synthetic schemes (overlapping / '
        'non-covering centre patterns, symmetric descriptors, remaps with '
        'fractional coefficients and non-canonical spellings). Non-trivial = '
        'a (scheme, molecule) whose mapping AND per-atom names were compared '
        'with the reference, or whose failure was decided on both sides; '
        'distinct by (scheme, canonical SMILES).'
        ' Argument forms: SMILES text (canonical; ring molecules also in '
        'two random atom orders) and, for a quarter of the molecules and '
        'all with ~ / $ / [H], an RDKit Mol object. Synthetic schemes also '
        'declare smarts_based_descriptors / smiles_based_descriptors from a '
        'closed pattern table. '
        ' '
        'Rounds 17-19: one scheme object decomposing texts and molecule'
        ' objects for four threads at once.'
        ' '
        'Round 20: synthetic correction descriptors with ring statements'
        ' that acyclic molecules satisfy (in =0 / <2 / <=1 / >=0 ring,'
        ' negations, nonring bonds and atoms).')
ASSUMPTIONS = [
    'RDKit parsing, kekulisation, ring perception and stereo perception are '
    'input; molecules above the 10000-embedding cap are excluded',
    'smiles/smarts-based descriptors are unused by every shipped scheme and '
    'outside the statement',
    'for fused benzenoid rings, and for aromatic systems whose Kekule form '
    'RDKit may pick differently, the normalised molecule of the call (hook) '
    'is taken as given (spelling dependence belongs to C03); all other atoms '
    'and bonds must agree with the harness\'s own normalisation',
]
CONFIG = {
    'shards': {'quick': 16, 'thorough': 16},
    'min_nontrivial': {'quick': 1200, 'thorough': 20000},
    'timeout': {'quick': 1200, 'thorough': 14400},
    'required_counters': ['per_atom_comparisons', 'failure_clause_decided'],
}
ANCHORS = [
    'pgradd.GroupAdd.Scheme:GroupAdditivityScheme.GetDescriptors',
    'pgradd.GroupAdd.Scheme:GroupAdditivityScheme._AssignCenterPattern',
    'pgradd.GroupAdd.Scheme:GroupAdditivityScheme._AssignGroup',
    'pgradd.GroupAdd.Scheme:GroupAdditivityScheme._AssignDescriptor',
    'pgradd.GroupAdd.Scheme:_aromatization_Benson',
    'pgradd.GroupAdd.Scheme:sanitize_except_aromatization',
    'pgradd.GroupAdd.Group:Group._canonical_name',
    'pgradd.RDkitWrapper.MolQuery:MolQuery.GetQueryMatches',
    'pgradd.Error:PatternMatchError.__init__',
]
_refs = {}
_real = {}
_syn = {}


# --------------------------------------------------------------- schemes
def synthetic_scheme_text(key):
    rng = random.Random('c02syn:%s' % key)
    hname = rng.choice(['H', 'H', 'none'])
    pats = []
    style = rng.choice(['plain', 'hybrid', 'overlap', 'hole', 'oxy'])

    def pat(c, p, conn):
        pats.append("-   center_name: %s\n    periph_name: %s\n"
                    "    connectivity: '%s'" % (libfiles.q(c), libfiles.q(p),
                                                conn))
    pat('H' if hname != 'none' else 'none', hname,
        'fragment h{H? labeled h1}')
    if style in ('plain', 'overlap', 'hole', 'oxy'):
        pat('C', 'C', 'fragment c{C? labeled c1}' if style != 'hole' else
            'fragment c{C labeled c1 {! connected to >0 $? with double '
            'bond}}')
        if style == 'overlap':
            pat('C[d]', 'C[d]', 'fragment cd{C? labeled c1 $? labeled a1 '
                                'double bond to c1}')
    else:
        pat('C', 'C', 'fragment c{C? labeled c1 {! connected to >0 $? with '
                      'double bond, ! connected to >0 $? with triple bond}}')
        pat('C[d]', 'C[d]', 'fragment cd{C? labeled c1 {connected to >0 $? '
                            'with double bond}}')
        pat('C[t]', 'C[t]', 'fragment ct{C? labeled c1 $? labeled a1 triple '
                            'bond to c1}')
    if style == 'oxy':
        pat('O', 'O', 'fragment o{O? labeled o1 {connected to 0 H}}')
        pat('O[H]', 'O', 'fragment oh{O? labeled o1 H labeled h1 single bond '
                         'to o1}')
    else:
        pat('O', 'O', 'fragment o{O? labeled o1}')
    descs = []
    cands = [
        ('CC', 'fragment cc{C labeled c1 C labeled c2 single bond to c1}'),
        ('gauche', 'fragment g{C labeled c1 {connected to >=3 C} C labeled '
                   'c2 single bond to c1 {connected to >=2 C}}'),
        ('ring3', 'fragment r{C labeled c1 {in ring of size 3}}'),
        ('CCC', 'fragment ccc{C labeled c1 C labeled c2 single bond to c1 C '
                'labeled c3 single bond to c2}'),
        ('OH', 'fragment oh{O labeled o1 H labeled h1 single bond to o1}'),
        ('C=C', 'fragment d{C labeled c1 C labeled c2 double bond to c1}'),
        ('COC', 'fragment e{O labeled o1 C labeled c1 single bond to o1 C '
                'labeled c2 single bond to o1}'),
        # ring statements that a molecule WITHOUT rings satisfies (counts
        # that zero fulfils, negations, non-ring atoms and bonds) and their
        # opposites
        ('openC', 'fragment a{C labeled c1 {in =0 ring}}'),
        ('looseCC', 'fragment b{C labeled c1 {in <2 ring} C labeled c2 '
                    'single bond to c1}'),
        ('O1', 'fragment c{O labeled o1 {in <=1 ring}}'),
        ('notIn1', 'fragment d{C labeled c1 {! in >=1 ring}}'),
        ('any0', 'fragment e{C labeled c1 {in >=0 ring}}'),
        ('not3', 'fragment f{C labeled c1 {! in ring of size =3}}'),
        ('chainbond', 'fragment g{C labeled c1 C labeled c2 nonring bond to '
                      'c1}'),
        ('ringbond', 'fragment h{C labeled c1 C labeled c2 ring bond to c1}'),
        ('chainC', 'fragment i{nonringatom C labeled c1}'),
        ('ringO', 'fragment j{ringatom O labeled o1}'),
        ('in2', 'fragment k{C labeled c1 {in >=2 ring}}'),
    ]
    for name, conn in rng.sample(cands, rng.randint(0, 5)):
        descs.append("-   name: %s\n    connectivity: '%s'" % (
            libfiles.q(name), conn))
    remaps = []
    rkeys = [('C(C)(H)3', 'C(H)3(C)'), ('C(H)4', 'C(H)4'),
             ('O(C)(H)', 'O(H)(C)'), ('C(C)2(H)2', 'C(H)2(C)2'),
             ('CC', 'CC'), ('OH', 'OH'), ('C(H)3(O)', 'C(O)(H)3'),
             ('C[d](C[d])(H)2', 'C[d](H)2(C[d])')]
    targets = ['C(C)(H)3', 'CH3x', 'C(C)2(H)2', 'lump', 'CC', 'O(C)2']
    for canon, other in rng.sample(rkeys, rng.randint(0, 3)):
        key = canon if rng.random() < 0.6 else other
        n = rng.randint(1, 2)
        tg = [t for t in rng.sample(targets, n) if t not in (canon, other)
              and t not in [k for k, _ in rkeys[:0]]]
        tg = [t for t in tg if S.canon_name(t) not in
              [S.canon_name(k) for k, _ in rkeys]] or ['lump']
        remaps.append("    %s: [%s]" % (libfiles.q(key), ', '.join(
            '[%s, %s]' % (rng.choice(['1', '0.5', '2', '-1', '0.25']),
                          libfiles.q(t)) for t in tg)))
    text = 'patterns:\n' + '\n'.join(pats) + '\n'
    if descs:
        text += 'other_descriptors:\n' + '\n'.join(descs) + '\n'
    # the two other kinds of correction descriptor a scheme file may declare
    r2 = random.Random('c02syn2:%s' % key)
    for sec, fld, table in (('smarts_based_descriptors', 'smarts',
                             S.SMARTS_TABLE),
                            ('smiles_based_descriptors', 'smiles',
                             S.SMILES_TABLE)):
        k = r2.choice([0, 1, 2, 3])
        if k:
            text += sec + ':\n'
            for j, pat_ in enumerate(r2.sample(sorted(table), k)):
                text += "-   name: %s\n    %s: '%s'\n    useChirality: " \
                        "false\n" % (libfiles.q('%s%d' % (fld[:3], j) if
                                                 r2.random() < 0.8 else 'CC'),
                                      fld, pat_)
    if remaps:
        text += 'remaps:\n' + '\n'.join(remaps) + '\n'
    return text


def get_scheme(spec):
    """-> (real scheme object, reference interpreter)."""
    key = repr(spec)
    if key in _real:
        return _real[key], _refs[key]
    import yaml
    from pgradd.GroupAdd.Scheme import GroupAdditivityScheme
    if isinstance(spec, str):
        real = libs.get(spec).scheme
        data = libs.scheme_yaml(spec)
    else:
        text = synthetic_scheme_text(spec[1])
        with libfiles.TempTree() as tree:
            p = tree.write('scheme.yaml', text)
            lo = observe(GroupAdditivityScheme.Load, p)
        data = yaml.safe_load(text)
        _syn[spec[1]] = text
        if 'exc' in lo:
            _real[key] = ('load failed', lo, sorted(
                k for k in data if k != 'patterns'))
            _refs[key] = None
            return _real[key], None
        real = lo['ok']
    _real[key] = real
    _refs[key] = S.SchemeRef(data)
    return real, _refs[key]


# ------------------------------------------------------------------ check
def hook_mol(real):
    m = getattr(real, '_verif_last_mol', None)
    try:
        real._verif_last_mol = None
    except Exception:
        pass
    return m


def per_atom_of(m):
    out = []
    for a in m.GetAtoms():
        out.append(tuple(a.GetProp(k) if a.HasProp(k) else None
                         for k in ('Group_Center_Name', 'Group_Periph_Name',
                                   'Group_name')))
    return out


def check_case(ctx, case):
    spec, smi = case['scheme'], case['smiles']
    real, ref = get_scheme(spec)
    if ref is None:
        ctx.violation('a scheme file in the documented layout cannot be '
                      'loaded (%s)' % real[1]['exc'],
                      {'scheme': spec, 'smiles': smi},
                      {'msg': real[1]['msg'], 'sections': real[2],
                       'scheme_text': _syn.get(spec[1], '')[:3000]})
        return
    hook_mol(real)
    arg = smi
    if case.get('as_mol'):
        arg = Chem.MolFromSmiles(smi)
        if arg is None:
            ctx.skip('SMILES not parseable by RDKit')
            return
        if case.get('ringinfo') == 'fast':
            # ring info computed by FastFindRings (not the SSSR): a reader of
            # the STORED ring info sees other rings than a fresh perception
            Chem.FastFindRings(arg)
            ctx.count('molecule_objects_with_fast_ring_info')
        ctx.count('molecule_object_inputs')
    o = observe(real.GetDescriptors, arg)
    ctx.evals()
    hm = hook_mol(real)
    try:
        own, fused = S.normalise(smi)
    except S.Unparseable:
        ctx.skip('SMILES not parseable by RDKit')
        return
    # --- normalisation ---------------------------------------------------
    if hm is not None:
        ctx.count('hook_molecules_seen')
        free = S.kekule_free_bonds(own)
        same = S.mol_signature(hm) == S.mol_signature(own)
        if not same and free:
            # aromatic systems have no unique Kekule form: the form of THIS
            # call is taken as given, everything else must agree
            same = S.mol_signature(hm, free) == S.mol_signature(own, free)
            if same:
                ctx.count('other_kekule_form_taken_as_given')
        if not fused and not same:
            a1, b1 = S.mol_signature(hm, free)
            a2, b2 = S.mol_signature(own, free)
            diff = [x for x in b1 if x not in b2][:4] + \
                [x for x in b2 if x not in b1][:4]
            ctx.violation('normalised molecule differs from the declared '
                          'normalisation', case,
                          {'atoms_equal': a1 == a2, 'bond_differences': diff})
            return
        M = hm
    else:
        M = own
    if fused:
        ctx.count('fused_alternating_rings')
    facts = R.Facts(M)
    try:
        want, per_atom, fired = ref.decompose(
            M, facts, clean=Chem.MolFromSmiles(smi))
        ref_err = None
    except S.DecompositionError as e:
        want = None
        ref_err = e
    # --- failure clause --------------------------------------------------
    if 'exc' in o:
        if o['exc'] != 'PatternMatchError':
            ctx.violation('GetDescriptors raised %s' % o['exc'], case,
                          {'msg': o['msg']})
            return
        if ref_err is None:
            ctx.violation('PatternMatchError although every atom has exactly '
                          'one centre pattern', case,
                          {'msg': o['msg'], 'reference_mapping': want})
            return
        so = observe(str, o['obj'])
        if 'exc' in so:
            ctx.violation('str(PatternMatchError) raised', case, so)
            return
        ctx.count('failure_clause_decided')
        ctx.klass('failure: ' + ref_err.why.split(':')[0])
        ctx.nontrivial([spec, smi, 'fail'])
        return
    if ref_err is not None:
        ctx.violation('decomposition returned although an atom has %s'
                      % ('no centre pattern' if 'no centre' in ref_err.why
                         else 'several centre patterns'), case,
                      {'atom': ref_err.atom, 'why': ref_err.why,
                       'returned': dict(o['ok'])})
        return
    got = dict(o['ok'])
    # --- whole mapping ---------------------------------------------------
    keys = set(got) | set(want)
    bad = [k for k in keys
           if abs(float(got.get(k, 0)) - float(want.get(k, 0))) > 1e-12]
    zero_keys = [k for k in keys if (k in got) != (k in want)]
    if bad:
        ctx.violation(mapping_sig(ref, got, want, bad), case,
                      {'differences': {k: [got.get(k), want.get(k)]
                                       for k in bad[:8]}})
        return
    if zero_keys and any(abs(float(got.get(k, want.get(k)))) > 1e-12
                         for k in zero_keys):
        ctx.violation('descriptor keys differ from the reference', case,
                      {'keys': zero_keys[:8]})
        return
    # --- per atom ----------------------------------------------------------
    if hm is not None:
        gp = per_atom_of(hm)
        if len(gp) != len(per_atom):
            ctx.violation('hook molecule has another atom count', case, {})
            return
        for i, (g, w) in enumerate(zip(gp, per_atom)):
            if tuple(g) != tuple(w):
                ctx.violation('per-atom assignment differs from the '
                              'reference', case,
                              {'atom': i, 'got': g, 'want': w})
                return
        ctx.count('per_atom_comparisons', len(gp))
    for pi, n in fired['patterns'].items():
        ctx.klass('%s pattern %s' % (_sname(spec), ref.patterns[pi][0]), n)
    for d, n in fired['descs'].items():
        ctx.klass('%s descriptor %s' % (_sname(spec), d), n)
    for r_, n in fired['remaps'].items():
        ctx.klass('%s remap %s' % (_sname(spec), r_), n)
    ctx.nontrivial([spec, smi, bool(case.get('as_mol'))])
    if ctx.rng.random() < 0.02:
        ctx.sample({'scheme': spec, 'smiles': smi, 'descriptors': got,
                    'atoms': len(per_atom)})


def _sname(spec):
    return spec if isinstance(spec, str) else 'synthetic'


def mapping_sig(ref, got, want, bad):
    k = bad[0]
    if k in ref.remaps or any(S.canon_name(k) == r for r in ref.remaps):
        return 'mapping differs from the reference (a remap did not fire)'
    if k in [d for d, _ in ref.descs]:
        return 'mapping differs from the reference (correction descriptor ' \
               'count)'
    return 'mapping differs from the reference (group count)'


# ---------------------------------------------------------------- workload
_small = {}


def small_pool(tier, nitrogen):
    key = (tier, nitrogen)
    if key not in _small:
        el = ('C', 'O', 'N') if nitrogen else ('C', 'O')
        _small[key] = molecules.enumerate_small(
            3 if tier == 'quick' else 4, el,
            max_radicals=1 if tier == 'thorough' else 2)
    return _small[key]


def molecules_for(ctx, spec):
    name = spec if isinstance(spec, str) else 'synthetic'
    metal = libs.METAL.get(name, 'Pt')
    nitro = name in ('BensonGA', 'PPY')
    q = ctx.tier == 'quick'
    pl = molecules.pool(ctx.seed, n_random=40 if q else 500,
                        n_ads=30 if q else 400, metal=metal, nitrogen=nitro,
                        max_heavy=10 if q else 14,
                        n_joined=250 if q else 3000)
    pl = pl + small_pool(ctx.tier, nitro) + molecules.OUTSIDE
    if name == 'synthetic':
        pl = [s for s in pl if 'Pt' not in s and 'Ru' not in s and 'N' not in
              s and 'n' not in s]
    seen = set()
    out = []
    for s in pl:
        if s not in seen:
            seen.add(s)
            out.append(s)
    return out


def check_threads(ctx, names=None, rounds=2):
    """The decomposition is a function of (scheme, molecule): one scheme
    object asked by four threads at once -- texts and molecule objects --
    answers every thread as it answers a lone caller (whose answer the
    ordinary workload judges against the scheme file)."""
    from vmon.core import threads as TH
    if names is None:
        k = (ctx.seed + ctx.shard // 4) % len(libs.LIBS)
        names = [libs.LIBS[k], libs.LIBS[(k + 4) % len(libs.LIBS)]]
    r = ctx.sub_rng('c02thr', *names)
    jobs_src = []
    for name in names:
        real, ref = get_scheme(name)
        pl = list(molecules_for(ctx, name))
        for smi in r.sample(pl, min(len(pl), 10)):
            jobs_src.append((name, real, smi))

    def make_jobs():
        jobs = []
        for name, real, smi in jobs_src:
            def thunk(real=real, smi=smi):
                d = real.GetDescriptors(smi)
                return repr(sorted((str(g), float(v)) for g, v in d.items()))

            def thunk_mol(real=real, smi=smi):
                d = real.GetDescriptors(Chem.MolFromSmiles(smi))
                return repr(sorted((str(g), float(v)) for g, v in d.items()))
            jobs.append(((name, smi, 'text'), thunk))
            jobs.append(((name, smi, 'mol'), thunk_mol))
        return jobs
    res = TH.stress(make_jobs, nthreads=4, rounds=rounds)
    TH.judge(ctx, res, 'GetDescriptors on a shared scheme object',
             {'what': 'thread stress', 'schemes': names})


def run_shard(ctx):
    if ctx.shard % 4 == 3:
        check_threads(ctx)
    i = 0
    specs = list(libs.LIBS) + [['synthetic', 'y%d_%d' % (ctx.seed, k)]
                               for k in range(6 if ctx.tier == 'quick'
                                              else 40)]
    for spec in specs:
        pl = molecules_for(ctx, spec)
        for smi in pl:
            if ctx.mine(i):
                check_case(ctx, {'scheme': spec, 'smiles': smi})
                if i % 4 == 0 or '~' in smi or '$' in smi or '[H]' in smi \
                        or sum(c.isdigit() for c in smi) >= 4:
                    # the same molecule handed over as an RDKit object
                    check_case(ctx, {'scheme': spec, 'smiles': smi,
                                     'as_mol': True})
                    if any(c.isdigit() for c in smi):
                        check_case(ctx, {'scheme': spec, 'smiles': smi,
                                         'as_mol': True, 'ringinfo': 'fast'})
                if any(c.isdigit() for c in smi):
                    # ring molecules also in two non-canonical spellings:
                    # ring perception walks each ring in atom order
                    m_ = Chem.MolFromSmiles(smi)
                    r_ = ctx.sub_rng('spell', smi)
                    for _ in range(2):
                        if m_ is None:
                            break
                        order = list(range(m_.GetNumAtoms()))
                        r_.shuffle(order)
                        alt = Chem.MolToSmiles(Chem.RenumberAtoms(m_, order),
                                               canonical=False)
                        if alt != smi and Chem.MolFromSmiles(alt) is not None:
                            ctx.count('ring_molecules_respelled')
                            check_case(ctx, {'scheme': spec, 'smiles': alt})
            i += 1


def describe(m, tier):
    fired = collections.defaultdict(lambda: collections.defaultdict(int))
    for k, v in m['classes'].items():
        parts = k.split(' ', 2)
        if len(parts) == 3 and parts[1] in ('pattern', 'descriptor', 'remap'):
            fired[parts[0]][parts[1]] += 1
    never = {}
    for name in libs.LIBS:
        d = libs.scheme_yaml(name)
        for sec, lab, key in (('patterns', 'pattern', 'center_name'),
                              ('other_descriptors', 'descriptor', 'name')):
            for p in d.get(sec) or []:
                if '%s %s %s' % (name, lab, p[key]) not in m['classes']:
                    never.setdefault(name, []).append('%s %s' % (lab, p[key]))
        for r_ in d.get('remaps') or {}:
            if '%s remap %s' % (name, S.canon_name(r_)) not in m['classes']:
                never.setdefault(name, []).append('remap %s' % r_)
    return {'scheme_items_fired': {k: dict(v) for k, v in fired.items()},
            'scheme_items_never_reached': {k: v[:40]
                                           for k, v in never.items()},
            'scheme_items_never_reached_count': {k: len(v)
                                                 for k, v in never.items()}}


def replay(ctx, case):
    if case.get('what') == 'thread stress':
        return check_threads(ctx, case['schemes'], rounds=8)
    check_case(ctx, case)


def classify(v):
    return None


LEVEL_TEXT = ('Held on every executed (scheme, molecule): each shipped and '
              'synthetic scheme file is read as a program by an independent '
              'interpreter (own RING parser, own matcher, own naming) and '
              'the real decomposition is compared with it as a whole mapping '
              'and atom by atom (guarded hook), incl. the failure clause and '
              'the normalised bonds; evidence lists which scheme items fired. '
              'Exploration over molecules.')
