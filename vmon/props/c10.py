"""C10 -- unit expressions evaluate to the exact SI value and dimension.

Monitor kind: reference model (refs/units.py: exact rational unit algebra from
the SI definitions) run beside eval_qty on generator-produced ASTs; exception
oracle for malformed input; round-trip relations for conversions.
"""
import itertools
import math
import random

from vmon.core.obs import observe, is_plain_number, close
from vmon.refs import units as U

TECHNIQUE = ('runtime monitoring: reference-model oracle (independent exact '
             'rational unit algebra) on generated expression ASTs + exception-'
             'class oracle for malformed text + conversion round-trip '
             'relations')
RULE = ('exhaustive: every unit name x every prefix (20 incl. da) + bare, each '
        'also squared and inverted; bounded-exhaustive: all expressions with '
        '<=2 (quick) / <=3 (thorough) factors over a 12-name alphabet x '
        '{*,/,juxtaposition} x exponents {none,2,-1,0.5} x optional '
        'parentheses; decimal fractional exponents that cancel only up to float '
        'round-off; random nesting to depth 5 / 10 leaves with numeric '
        'factors; conversions between compatible pairs; malformed variants. '
        'Non-trivial = an expression containing >=1 unit name whose value and '
        'all seven exponents were compared (or a malformed text whose '
        'rejection class was decided); distinct by text.'
        ' '
        'Round 20: half of the exhaustive lookups preceded by a caller'
        ' changing the returned quantity with augmented assignments.')
ASSUMPTIONS = [
    'no division by a zero-valued factor, no 0^negative (ZeroDivisionError is '
    'not classified by the statement); exponents bounded so values stay in '
    'float range; e-notation is documented as unsupported',
    'units with several customary definitions (cal, BTU, hp) accept any '
    'standard one, consistently within an expression; measured constants '
    '(molecule, u, eV, lbf and units derived from them) to 1e-6',
]
CONFIG = {
    'shards': {'quick': 16, 'thorough': 16},
    'min_nontrivial': {'quick': 8000, 'thorough': 200000},
}
ANCHORS = [
    'pgradd.Units.parser:UnitsParser.parse',
    'pgradd.Units.parser:UnitsParser.parse_expr',
    'pgradd.Units.parser:UnitsParser.parse_factor',
    'pgradd.Units.parser:UnitsParser.parse_base',
    'pgradd.Units.parser:UnitsParser.parse_number',
    'pgradd.Units.parser:UnitsParser.parse_name',
    'pgradd.Units.parser:eval_subtree',
    'pgradd.Units.db:UnitsDB.lookup',
    'pgradd.Units.qty:GenericQuantity.in_units',
    'pgradd.Units.helpers:with_units',
    'pgradd.Units.helpers:in_units',
    'pgradd.Units.helpers:to_SI_from',
    'pgradd.Units.helpers:from_SI_to',
]
ALPHABET = ['m', 'kg', 's', 'K', 'mol', 'J', 'kJ', 'cal', 'Pa', 'L', 'min',
            'N']
EXPS = [None, '2', '-1', '0.5']
NUMS = ['2', '10', '0.5', '1.5', '100.0', '1000', '3', '6.02', '0.001']
FAMILIES = [
    ['J', 'kJ', 'cal', 'kcal', 'eV', 'erg', 'BTU', 'N m', 'Pa m^3', 'W s',
     'kg m^2/s^2', 'MJ', 'mJ', 'L atm', 'bar L', 'hp h', 'dyn cm'],
    ['Pa', 'kPa', 'bar', 'atm', 'torr', 'psi', 'N/m^2', 'mbar', 'MPa',
     'dyn/cm^2', 'lbf/in^2', 'J/m^3'],
    ['m', 'cm', 'mm', 'km', 'in', 'ft', 'um', 'nm', 'dam', 'dm'],
    ['g', 'kg', 'mg', 'lb', 't', 'u', 'ug', 'dag'],
    ['s', 'ms', 'min', 'h', 'us', 'ks'],
    ['kJ/mol', 'kcal/mol', 'J/mol', 'cal/mol', 'eV/molecule', 'J/mmol',
     'MJ/kmol', 'erg/umol'],
    ['J/(mol K)', 'cal/(mol*K)', 'kJ/(mol K)', 'kcal/(kmol K)',
     'J/mol/K', 'eV/(molecule K)'],
    ['L', 'm^3', 'cm^3', 'mL', 'dm^3', 'ft^3', 'in^3', 'uL'],
    ['W', 'kW', 'hp', 'J/s', 'BTU/h', 'mW'],
    ['P', 'Pa s', 'cP', 'g/(cm s)', 'kg/(m s)'],
    ['St', 'm^2/s', 'cSt', 'cm^2/s'],
    ['K', 'mK', 'kK'],
    ['mol', 'mmol', 'kmol', 'molecule'],
    ['C', 'A s', 'mC', 'A h'],
    ['V', 'J/C', 'mV', 'W/A'],
    ['Ohm', 'V/A', 'kOhm'], ['F', 'C/V', 'uF', 'pF'], ['cd', 'mcd'],
    ['N', 'kN', 'dyn', 'lbf', 'kg m/s^2'],
]


def observed(q):
    """(value, exps or None) of what eval_qty returned."""
    from pgradd.Units import Quantity
    if isinstance(q, Quantity):
        return q.value, [float(x) for x in q.units.exps]
    if is_plain_number(q):
        return q, None
    return q, 'unknown-type'


# ------------------------------------------------------------- generators
def chain(factors, ops):
    ast = factors[0]
    for op, f in zip(ops, factors[1:]):
        ast = (op, ast, f)
    return ast


def rand_factor(rng, depth, budget):
    r = rng.random()
    if depth > 0 and budget[0] > 2 and r < 0.25:
        base = ('par', rand_expr(rng, depth - 1, budget))
    elif r < 0.45:
        budget[0] -= 1
        base = ('num', rng.choice(NUMS))
        if rng.random() < 0.15:
            base = ('par', ('num', '-' + rng.choice(NUMS)))
            return base
    else:
        budget[0] -= 1
        name = rng.choice(list(U.UNITS))
        if rng.random() < 0.5:
            pre = rng.choice(list(U.PREFIXES))
            name = pre + name
        base = ('unit', name)
    if rng.random() < 0.4:
        e = rng.choice(['2', '3', '-1', '-2', '0.5', '-0.5', '1.5', '0', '4',
                        '-3', '1'])
        if base[0] == 'num' and base[1] == '10':
            e = rng.choice(['-5', '23', '3', '-3', '-19', '2'])
        return ('pow', base, e)
    return base


def rand_expr(rng, depth, budget):
    n = rng.randint(1, 4)
    fs = [rand_factor(rng, depth, budget)]
    ops = []
    for _ in range(n - 1):
        if budget[0] <= 0:
            break
        ops.append(rng.choice(['mul', 'div', 'jux', 'jux']))
        fs.append(rand_factor(rng, depth, budget))
    return chain(fs, ops)


def has_unit(ast):
    if ast[0] == 'unit':
        return True
    return any(isinstance(x, tuple) and has_unit(x) for x in ast[1:])


# ------------------------------------------------------------------ checks
def scribble(text):
    from pgradd.Units import eval_qty
    so = observe(eval_qty, text)
    if 'ok' not in so:
        return False
    ns = {'eval_qty': eval_qty, 'q_': so['ok']}
    for step in ('q_ *= 298.15', 'q_ /= eval_qty("mol")', 'q_ += q_',
                 'q_ -= 0.5 * q_', 'q_ **= 2'):
        try:
            exec(step, ns)
        except Exception:
            pass
    return True


def check_valid(ctx, ast, text, kind):
    from pgradd.Units import eval_qty
    case = {'text': text, 'ast': ast, 'kind': kind}
    try:
        vals = [U.evaluate(ast, ch) for ch in U.choices(ast)]
    except ZeroDivisionError:
        ctx.skip('zero division (unclassified by the statement)')
        return
    except OverflowError:
        ctx.skip('outside float range')
        return
    try:
        if any(not math.isfinite(float(v.mag)) or abs(float(v.mag)) > 1e250
               or (v.mag != 0 and abs(float(v.mag)) < 1e-250)
               for v in vals) or not magnitudes_bounded(ast):
            ctx.skip('outside the bounded magnitude range')
            return
    except OverflowError:
        ctx.skip('outside float range')
        return
    if kind == 'exhaustive lookup' and len(text) % 2 == 0:
        # a caller who got this quantity before and changed it with
        # augmented assignments (q *= x; q /= y; q += q; q **= 2): what the
        # text denotes afterwards is what it denoted before
        if scribble(text):
            ctx.count('results_changed_by_the_caller_with_augmented_'
                      'assignment')
    o = observe(eval_qty, text)
    ctx.evals()
    if 'exc' in o:
        ctx.violation('valid expression raised %s' % o['exc'], case,
                      {'msg': o['msg']})
        return
    value, exps = observed(o['ok'])
    if exps == 'unknown-type':
        ctx.violation('eval_qty returned an unexpected type', case,
                      {'type': type(o['ok']).__name__})
        return
    why = None
    for v in vals:
        why = U.compare(v, value, exps)
        if why is None:
            break
    if why is not None:
        ctx.violation('value/dimension differs from the SI reference: %s'
                      % why.split(':')[0], case,
                      {'why': why, 'observed_value': value,
                       'observed_exps': exps})
        return
    if has_unit(ast):
        ctx.nontrivial(text)
        ctx.klass(kind)
        if kind.startswith('random'):
            ctx.sample({'text': text, 'value': value, 'exps': exps})
    return True


def magnitudes_bounded(ast):
    """Every sub-expression stays inside the float range (the library
    evaluates bottom-up, so an intermediate overflow is outside the bound even
    if the final value is moderate)."""
    try:
        for sub in subtrees(ast):
            for ch in U.choices(sub):
                exact = U.evaluate(sub, ch).mag
                m = float(exact)
                # (exact != 0: a tiny rational converts to 0.0 silently)
                if not math.isfinite(m) or abs(m) > 1e250 or \
                        (exact != 0 and abs(m) < 1e-250):
                    return False
    except (OverflowError, ZeroDivisionError):
        return False
    return True


def subtrees(ast):
    yield ast
    for x in ast[1:]:
        if isinstance(x, tuple):
            for y in subtrees(x):
                yield y


MALFORMED_SUFFIX = ['*', '/', '^', ' *', '/ ', '^(', '^(1/2)', '^()', '^m',
                    '^^2', '**m', '//m', '*/m', ')', '(', ' ()', ',m', ';',
                    '!', '@s', '#', '[2]', '^-', '^2^3', '^(2', ' 1.2.3',
                    ' .', ' -', '^+2', '$', '%', '&m', '=1', '^2)', '+m',
                    ' - m', '|', '^(-)', '\\', '"', "'", '?', '~m', ' m^',
                    '^(2))', '^ ', '/()', '*()']
MALFORMED_ALONE = ['', ' ', '\t', '*', '/', '^', '^2', '()', '(', ')',
                   '(()', '*m', '/m', '^m', ')m(', '1.2.3', '.', '-', '--1',
                   'nan', 'inf', 'infinity', 'NaN', 'Inf', 'INF', 'nan m',
                   'inf m', 'm nan', '2 inf', 'm^nan', 'm^inf', '(nan)',
                   'm/inf', 'Infinity', '-inf', 'm*(', 'm/(s', '((m)',
                   'm^(1/2)', '1e5', '1e-5 m', '2E3', 'm_s',
                   'm²', 'µm', 'Ω', 'm·s', '°C',
                   'k', 'da', 'M', 'dak', 'mm m m m ^', '10^', '^10', '2^',
                   '(2', '2)', '(m))', 'm^(2', 'm^2)', 'm^()', 'm ^ ( )']


def unknown_name(rng):
    while True:
        n = rng.randint(1, 6)
        s = ''.join(rng.choice('abcdefghijklmnopqrstuvwxyzABCDEFGHIJKLMNOPQRS'
                               'TUVWXYZ') for _ in range(n))
        if not U.resolvable(s) and s.lower() not in ('nan', 'inf',
                                                      'infinity'):
            return s


def check_malformed(ctx, text, kind):
    from pgradd.Units import eval_qty
    case = {'text': text, 'kind': kind}
    o = observe(eval_qty, text)
    ctx.evals()
    if 'ok' in o:
        ctx.violation('malformed expression accepted [%s]' % kind, case,
                      {'returned': repr(o['ok'])[:200]})
        return
    if o['exc'] == 'UnitsParseError':
        ctx.nontrivial('malformed:' + text)
        ctx.klass('malformed: ' + kind)
        return
    if o['exc'] == 'ZeroDivisionError':
        ctx.skip('zero division (unclassified by the statement)')
        return
    ctx.violation('malformed expression raised %s instead of UnitsParseError'
                  % o['exc'], case, {'msg': o['msg']})


def check_conversion(ctx, rng, a, b, x):
    """x [a] -> in units of b, and back."""
    from pgradd.Units import eval_qty, with_units, in_units, to_SI_from, \
        from_SI_to
    case = {'from': a, 'to': b, 'x': x, 'kind': 'conversion'}
    ast_a, ast_b = parse_own(a), parse_own(b)
    q = observe(lambda: x * eval_qty(a))
    ctx.evals()
    if 'exc' in q:
        ctx.violation('x*eval_qty(unit) raised %s' % q['exc'], case,
                      {'msg': q['msg']})
        return
    q = q['ok']
    got = observe(q.in_units, b)
    got2 = observe(in_units, q, b)
    ctx.evals(2)
    if 'exc' in got or 'exc' in got2:
        ctx.violation('conversion to a compatible unit raised %s'
                      % (got.get('exc') or got2.get('exc')), case,
                      {'msg': got.get('msg') or got2.get('msg')})
        return
    ok = False
    for ch in U.choices(ast_a, ast_b):
        va, vb = U.evaluate(ast_a, ch), U.evaluate(ast_b, ch)
        want = x * float(va.mag) / float(vb.mag)
        rel = 1e-12 + 1e-6 * (va.measured + vb.measured)
        if is_plain_number(got['ok']) and close(got['ok'], want, rel=rel,
                                                abs_=0.0) and \
                got2['ok'] == got['ok']:
            ok = True
            break
    if not ok:
        ctx.violation('in_units != ratio of SI magnitudes', case,
                      {'got': repr(got['ok']), 'want': want})
        return
    back = observe(with_units, got['ok'], b)
    ctx.evals()
    if 'exc' in back:
        ctx.violation('with_units raised %s' % back['exc'], case, back)
        return
    bv, be = observed(back['ok'])
    qv, qe = observed(q)
    if x != 0 and (be != qe or not close(bv, qv, rel=1e-12, abs_=0.0)):
        ctx.violation('converting there and back does not return the '
                      'original quantity', case,
                      {'original': [qv, qe], 'back': [bv, be]})
        return
    rt = observe(lambda: from_SI_to(to_SI_from(x, b), b))
    ctx.evals()
    if 'exc' in rt or not close(rt['ok'], x, rel=1e-12, abs_=0.0):
        ctx.violation('from_SI_to(to_SI_from(x,u),u) != x', case,
                      {'got': repr(rt.get('ok', rt.get('exc')))})
        return
    ctx.nontrivial(['conv', a, b, x])
    ctx.klass('conversion round trip')


def parse_own(text):
    """Tiny own parser for the FAMILIES strings (names, * / juxtaposition,
    parentheses, ^int) -> AST."""
    import re
    toks = re.findall(r'-?\d+|[A-Za-z]+|[()*/^]', text)
    pos = [0]

    def peek():
        return toks[pos[0]] if pos[0] < len(toks) else None

    def take():
        pos[0] += 1
        return toks[pos[0] - 1]

    def base():
        t = take()
        if t == '(':
            e = expr()
            assert take() == ')'
            node = ('par', e)
        elif re.match(r'-?\d', t):
            node = ('num', t)
        else:
            node = ('unit', t)
        if peek() == '^':
            take()
            node = ('pow', node, take())
        return node

    def expr():
        node = base()
        while peek() is not None and peek() != ')':
            if peek() == '*':
                take()
                node = ('mul', node, base())
            elif peek() == '/':
                take()
                node = ('div', node, base())
            else:
                node = ('jux', node, base())
        return node
    out = expr()
    assert pos[0] == len(toks), text
    return out


def check_threads(ctx):
    """The same evaluations from four threads at once (short switch
    interval): every result equals the one obtained alone.  Evaluation keeps
    no state between calls, so the schedule must not matter."""
    import sys
    import threading
    from pgradd.Units import eval_qty
    texts = ['12 in', 'cm^3/(mol s)', '2.5 kJ/(mol K)', 'kcal/mol', 'mm Hg',
             'W/(m K)', 'daN m^-2', '(kg m^2/s^2)^0.5', 'uL/min', '4 ft lbf',
             'eV/molecule', 'm/m', 'hp h', '1/(Pa s)', 'mol/(L h)', 'kW h']
    texts = [t for t in texts if 'ok' in observe(eval_qty, t)]
    alone = {}
    for t in texts:
        v, e = observed(observe(eval_qty, t)['ok'])
        alone[t] = (repr(v), repr(e))
    bad = []
    n_done = [0]
    lock = threading.Lock()

    def work(k):
        r = random.Random('c10thr:%s:%s' % (ctx.seed, k))
        for _ in range(1500):
            t = r.choice(texts)
            try:
                v, e = observed(eval_qty(t))
                got = (repr(v), repr(e))
            except BaseException as exc:          # noqa
                got = ('raised', type(exc).__name__)
            if got != alone[t]:
                with lock:
                    if len(bad) < 5:
                        bad.append([t, got, alone[t]])
            n_done[0] += 1
    old = sys.getswitchinterval()
    sys.setswitchinterval(1e-5)
    try:
        ths = [threading.Thread(target=work, args=(k,)) for k in range(4)]
        for th in ths:
            th.start()
        for th in ths:
            th.join(300)
    finally:
        sys.setswitchinterval(old)
    ctx.evals(n_done[0])
    if bad:
        ctx.violation('evaluation from several threads at once differs from '
                      'evaluation alone', {'what': 'thread stress'},
                      {'examples': bad})
        return
    ctx.count('evaluations_under_thread_stress', n_done[0])


# ---------------------------------------------------------------- workload
def run_shard(ctx):
    i = 0
    if ctx.shard % 4 == 1:
        check_threads(ctx)
    # 1. exhaustive lookups
    names = list(U.UNITS)
    prefixes = [''] + list(U.PREFIXES)
    for pre in prefixes:
        for n in names:
            if ctx.mine(i):
                text = pre + n
                for ast in (('unit', text), ('pow', ('unit', text), '2'),
                            ('pow', ('unit', text), '-1'),
                            ('div', ('num', '1'), ('unit', text))):
                    check_valid(ctx, ast, U.render(ast), 'exhaustive lookup')
            i += 1
    # 2. bounded-exhaustive expressions
    nf = 2 if ctx.tier == 'quick' else 3
    ops = ['mul', 'div', 'jux']

    def factor(name, e):
        return ('unit', name) if e is None else ('pow', ('unit', name), e)
    for k in range(2, nf + 1):
        for combo in itertools.product(ALPHABET, repeat=k):
            if not ctx.mine(i):
                i += 1
                continue
            i += 1
            for oo in itertools.product(ops, repeat=k - 1):
                for ee in itertools.product(EXPS, repeat=k):
                    fs = [factor(n, e) for n, e in zip(combo, ee)]
                    ast = chain(fs, oo)
                    check_valid(ctx, ast, U.render(ast),
                                'bounded-exhaustive %d factors' % k)
                    if k == 2:      # parenthesised right operand
                        ast2 = (oo[0], fs[0], ('par', fs[1]))
                        check_valid(ctx, ast2, U.render(ast2),
                                    'bounded-exhaustive 2 factors, parens')
    # quick tier: a sample of the 3-factor space
    if ctx.tier == 'quick':
        r = ctx.sub_rng('c10-3f', ctx.shard)
        for _ in range(1500):
            combo = [r.choice(ALPHABET) for _ in range(3)]
            fs = [factor(n, r.choice(EXPS)) for n in combo]
            ast = chain(fs, [r.choice(ops), r.choice(ops)])
            if r.random() < 0.3:
                ast = (ast[0], ast[1], ('par', ast[2]))
            check_valid(ctx, ast, U.render(ast, r), 'sampled 3 factors')
    # 2b. fractional exponents that cancel only up to float round-off
    #     (0.1 + 0.2 - 0.3): the result must still be a plain number / the
    #     remaining exponent must be the exact decimal
    from fractions import Fraction as Fr
    decs = ['0.1', '0.2', '0.3', '0.4', '0.6', '0.7', '1.1', '1.3', '2.2',
            '0.15', '0.05']
    fam = []
    for u in ('m', 's', 'kg', 'K', 'mol', 'J', 'Pa'):
        for a in decs:
            for b in decs:
                tot = Fr(a) + Fr(b)
                c = str(float(tot)) if float(tot) == float(str(float(tot))) \
                    else None
                if c is None or Fr(c) != tot:
                    continue
                fam.append((u, a, b, c))
    for j, (u, a, b, c) in enumerate(fam):
        if not ctx.mine(j):
            continue
        pa, pb = ('pow', ('unit', u), a), ('pow', ('unit', u), b)
        for ast in (('div', ('jux', pa, pb), ('pow', ('unit', u), c)),
                    ('div', ('mul', pa, pb), ('pow', ('unit', u), a)),
                    ('mul', ('div', pa, ('pow', ('unit', u), c)), pb),
                    ('jux', ('pow', ('par', ('div', pa,
                                              ('pow', ('unit', u), c))),
                             '2'), ('pow', ('unit', u), b + '0'))):
            check_valid(ctx, ast, U.render(ast), 'fractional exponents, '
                                                 'cancelling')
    # 3. random deeper nesting
    nrand = 8000 if ctx.tier == 'quick' else 80000
    r = ctx.sub_rng('c10-rand', ctx.shard)
    for _ in range(nrand):
        ast = rand_expr(r, r.randint(0, 5), [10])
        text = U.render(ast, r)
        if not check_valid(ctx, ast, text, 'random nesting'):
            continue
        # 4. malformed variants of this (verified valid) text
        m = r.random()
        if m < 0.25:
            check_malformed(ctx, text + r.choice(MALFORMED_SUFFIX),
                            'valid text + malformed suffix')
        elif m < 0.4:
            bad = unknown_name(r)
            check_malformed(ctx, text + ' ' + bad, 'unknown unit name')
            check_malformed(ctx, bad + '/(' + text + ')', 'unknown unit name')
        elif m < 0.5:
            w = r.choice(['nan', 'inf', 'infinity', 'NaN', 'Inf'])
            check_malformed(ctx, r.choice([text + ' ' + w, w + ' ' + text,
                                           text + '^' + w,
                                           '(' + text + ')/' + w]),
                            'nan/inf as a name')
    for j, t in enumerate(MALFORMED_ALONE):
        if ctx.mine(j):
            check_malformed(ctx, t, 'curated malformed text')
            ctx.sample({'malformed': t})
    # 5. conversions
    nconv = 400 if ctx.tier == 'quick' else 6000
    r = ctx.sub_rng('c10-conv', ctx.shard)
    for _ in range(nconv):
        fam = r.choice(FAMILIES)
        a, b = r.choice(fam), r.choice(fam)
        x = r.choice([1, 2.5, -3.0, 1e-6, 12345.678, 0.217, 1000, 7])
        check_conversion(ctx, r, a, b, x)


def replay(ctx, case):
    # (the witness may be the consequence of what a caller did to an EARLIER
    # result: repeat that for every bare unit name first)
    for pre_ in [''] + list(U.PREFIXES)[:3]:
        for n_ in U.UNITS:
            if len(pre_ + n_) % 2 == 0:
                scribble(pre_ + n_)
    if case.get('kind') == 'conversion':
        check_conversion(ctx, ctx.rng, case['from'], case['to'], case['x'])
    elif 'ast' in case:
        def tup(a):
            import ast as _ast
            out = []
            for x in a:
                if isinstance(x, list):
                    out.append(tup(x))
                elif isinstance(x, str) and x[:1] in '("\'' and x[-1:] in \
                        ')"\'' and len(x) > 1:
                    # older replay files abbreviated deep sub-trees as repr()
                    try:
                        out.append(_ast.literal_eval(x))
                    except Exception:
                        out.append(x)
                else:
                    out.append(x)
            return tuple(out)
        try:
            ast = tup(case['ast'])
            U.evaluate(ast)
        except Exception:
            # deeply nested trees are abbreviated in the replay file: the
            # text is the case, the tree is re-derived from it
            ast = parse_own(case['text'])
        check_valid(ctx, ast, case['text'], case['kind'])
    else:
        check_malformed(ctx, case['text'], case['kind'])


def classify(v):
    return None


LEVEL_TEXT = ('Held on every executed expression: exhaustive over unit name x '
              'prefix lookups (incl. squares and inverses), bounded-exhaustive '
              'over 2-factor (thorough: 3-factor) expressions of a 12-name '
              'alphabet, sampled deeper nesting, conversions and malformed '
              'texts; every value and all seven exponents are compared with '
              'an independent exact-rational reference. Exploration beyond '
              'the stated bounds.')
