"""C01 -- Estimate is the exact count-weighted sum of group contributions.

Monitor kind: reference model (one line of arithmetic: fsum(count * value of
the constituent's own correlation, observed through the same public API)) +
exception-class oracle for the incomplete-data and missing-data clauses + a
recording contract on ThermochemGroupAdditive.__init__.
"""
import collections

import numpy as np
import math
import os

from vmon.core.obs import observe, is_plain_number, close
from vmon.core import libs
from vmon.gen import libfiles

TECHNIQUE = ('runtime monitoring: reference-model oracle (fsum of observed '
             'constituent values) + exception-class oracle + recording '
             'contract on the estimator constructor')
RULE = ('(a) exhaustive unit vectors: every group/descriptor of the 9 shipped '
        'libraries x temperatures {range ends, T_ref, knots, midpoints}; '
        '(b) random sparse/dense mappings with counts from {0,+-1,+-2,small '
        'ints,fractions,1e3,1e-9}, keys as str / Group objects / defaultdict; '
        '(c) mappings with 1-3 descriptors lacking data in every position; '
        '(d) synthetic libraries written as YAML and loaded by the real '
        'loader; (e) estimates on a fresh, never-used library object. '
        'Non-trivial = a (library, mapping) whose four properties were '
        'compared at >=1 temperature or whose failure clause was decided; '
        'distinct by (library, mapping, key form).'
        ' Argument forms: mapping keys as str / Group objects / '
        'defaultdict; counts as Python int / float, numpy int64 / int32 / '
        'float64, Fraction. '
        ' '
        'Rounds 17-19: in-memory libraries in which further descriptors'
        ' carry the data of an existing group (same object / same property'
        ' set / equal copy); mappings of 257-1030 descriptors; copies and'
        ' pickles of estimates; estimates from a shared library and'
        ' evaluation of a shared estimator from four threads.')
ASSUMPTIONS = [
    'temperatures only inside the estimate\'s reported range (C06 owns the '
    'outside)',
    'in libraries that carry uncertainty data a descriptor outside the '
    'uncertainty basis makes Estimate raise (C20 demands that); such '
    'mappings carry no C01 verdict',
    'tolerance 1e-10*(sum|terms|+1): the code sums in mapping order',
]
CONFIG = {
    'shards': {'quick': 16, 'thorough': 16},
    'min_nontrivial': {'quick': 800, 'thorough': 8000},
    'required_counters': ['estimator_contract_checked'],
}
ANCHORS = [
    'pgradd.GroupAdd.Library:GroupLibrary.Estimate',
    'pgradd.GroupAdd.Library:GroupLibrary.__getitem__',
    'pgradd.ThermoChem.group_data:ThermochemGroupAdditive.__init__',
    'pgradd.ThermoChem.group_data:ThermochemGroupAdditive.get_CpoR',
    'pgradd.ThermoChem.group_data:ThermochemGroupAdditive.get_HoRT',
    'pgradd.ThermoChem.group_data:ThermochemGroupAdditive.get_SoR',
    'pgradd.ThermoChem.base:ThermochemBase.get_GoRT',
    'pgradd.Error:GroupMissingDataError.__init__',
]
PROPS = ['get_CpoR', 'get_HoRT', 'get_SoR', 'get_GoRT']
COUNTS = [0, 1, -1, 2, -2, 3, 7, 0.217, -0.5, 1.5, 1000.0, 1e-9, 0.0]

_contract = {'checked': 0, 'installed': False, 'bad': []}


def install_contract():
    """Recording postcondition on the estimator constructor: one
    (correlation, count) term per key, carrying that key's count and that
    key's own correlation object.  Records, never raises."""
    if _contract['installed']:
        return
    from pgradd.ThermoChem.group_data import ThermochemGroupAdditive as TGA

    def one_term_per_key(self, lib, groups):
        try:
            terms = list(self.correlations)
            keys = list(groups)
            ok = len(terms) == len(keys)
            if ok:
                for (corr, cnt), k in zip(terms, keys):
                    if corr is not lib[k]['thermochem'] or cnt != groups[k]:
                        ok = False
            _contract['checked'] += 1
            if not ok:
                _contract['bad'].append(
                    {'keys': [str(k) for k in keys],
                     'terms': len(terms)})
        except Exception as exc:  # monitor must never change behaviour
            _contract.setdefault('errors', []).append(type(exc).__name__)
        return True
    try:
        import icontract
        TGA.__init__ = icontract.ensure(one_term_per_key)(TGA.__init__)
        _contract['kind'] = 'icontract.ensure'
    except Exception:
        orig = TGA.__init__

        def wrapped(self, lib, groups):
            orig(self, lib, groups)
            one_term_per_key(self, lib, groups)
        TGA.__init__ = wrapped
        _contract['kind'] = 'plain wrapper'
    _contract['installed'] = True


def monitor_evaluations():
    return {'estimator_contract_checked': _contract['checked']}


# ---------------------------------------------------------------- libraries
from vmon.gen.synthlib import get_lib  # noqa: E402


def keys_with_data(lib):
    return [g for g in lib if 'thermochem' in lib[g]]


def with_aliases(lib, aliases):
    """A library assembled in memory (the constructor's documented mapping
    form) holding everything `lib` holds plus, for each [alias, target, how],
    a further descriptor whose property set is the target's: 'same' -- the
    very same correlation object (equivalent groups sharing one data set),
    'sameset' -- the same property-set dict, 'copy' -- an equal-valued deep
    copy.  The sum is over DESCRIPTORS, whatever objects carry the data."""
    import copy
    from pgradd.GroupAdd.Library import GroupLibrary
    from pgradd.GroupAdd.Group import Descriptor
    contents = dict((g, lib[g]) for g in lib)
    for alias, target, how in aliases:
        ps = lib[target]
        if how == 'same':
            new = {'thermochem': ps['thermochem']}
        elif how == 'sameset':
            new = ps
        else:
            new = {'thermochem': copy.deepcopy(ps['thermochem'])}
        contents[Descriptor(lib.scheme, alias)] = new
    return GroupLibrary(lib.scheme, contents,
                        uq_contents=getattr(lib, 'uq_contents', {}) or {},
                        path=getattr(lib, 'path', None))


# ------------------------------------------------------------------ oracle
def make_mapping(lib, pairs, form):
    from pgradd.GroupAdd.Group import Group, Descriptor
    by_name = dict((str(g), g) for g in lib)
    if form == 'obj':
        items = []
        for k, c in pairs:
            if k in by_name:
                items.append((by_name[k], c))
            elif '(' in k:
                items.append((Group.parse(lib.scheme, k), c))
            else:
                items.append((Descriptor(lib.scheme, k), c))
        return dict(items)
    if form == 'defaultdict':
        d = collections.defaultdict(int)
        for k, c in pairs:
            d[k] += c
        return d
    return dict(pairs)


def temperatures(lib, pairs, est_range, rng, nmax):
    cands = set()
    for k, _ in pairs:
        c = lib[k].get('thermochem') if hasattr(lib[k], 'get') else None
        if c is None:
            continue
        cands.add(float(c.T_ref))
        ts = sorted(c.ND_Cp_data or {})
        cands.update(float(t) for t in ts)
        cands.update((a + b) / 2.0 for a, b in zip(ts, ts[1:]))
    if est_range is not None:
        lo, hi = est_range
        cands.update([lo, hi, (lo + hi) / 2.0])
        cands = [t for t in cands if lo <= t <= hi]
    else:
        cands = list(cands) or [298.15]
    cands = sorted(cands)
    if len(cands) > nmax:
        keep = {cands[0], cands[-1]}
        keep.update(rng.sample(cands, nmax - 2))
        cands = sorted(keep)
    return cands


_PREV = {}


def check_case(ctx, case):
    install_contract()
    lib = get_lib(case['lib'], case.get('fresh', False))
    if case.get('aliases'):
        lib = with_aliases(lib, case['aliases'])
        ctx.klass('library assembled in memory whose descriptors share '
                  'correlation objects')
    pairs = [(k, c) for k, c in case['mapping']]
    mapping = make_mapping(lib, pairs, case.get('keyform', 'str'))
    ctype = case.get('counttype', 'py')
    if ctype != 'py':
        # the same counts as numpy scalars / exact fractions / a Counter
        import fractions
        conv = {'numpy': lambda c: (np.int64(c) if isinstance(c, int)
                                    else np.float64(c)),
                'numpy32': lambda c: (np.int32(c) if isinstance(c, int)
                                      else np.float64(c)),
                'fraction': lambda c: fractions.Fraction(c)
                if isinstance(c, int) or float(c) == round(float(c), 3)
                and abs(c) < 1e6 else c,
                'float': float}[ctype]
        for k_ in list(mapping):
            mapping[k_] = conv(mapping[k_])
        ctx.klass('count type ' + ctype)
    lacking = [k for k, _ in pairs
               if not ('thermochem' in lib[k])]
    if lacking and len(repr(case['mapping'])) % 2 == 0:
        # a caller who looked a data-less name up and wrote into what came
        # back (a no-op on a private empty dict) must not thereby give data
        # to OTHER data-less names
        donors = keys_with_data(lib)
        if donors:
            try:
                scratch = lib['Qq(Zz)%d' % (2 + len(lacking))]
                if isinstance(scratch, dict) and not scratch:
                    scratch['thermochem'] = lib[donors[0]]['thermochem']
                    ctx.count('absent_lookup_results_scribbled_on')
            except Exception:
                pass
    o = observe(lib.Estimate, mapping, 'thermochem')
    ctx.evals()
    key = [case['lib'], case['mapping'], case.get('keyform', 'str'),
           case.get('fresh', False)]

    # ---- missing-data clause -------------------------------------------
    if lacking:
        ctx.klass('mapping with descriptors lacking data')
        if 'ok' in o:
            ctx.violation('Estimate returned an estimator although '
                          'descriptors lack data', case,
                          {'lacking': lacking})
            return
        if o['exc'] != 'GroupMissingDataError':
            ctx.violation('missing data -> %s instead of '
                          'GroupMissingDataError' % o['exc'], case,
                          {'lacking': lacking, 'msg': o['msg']})
            return
        named = sorted(str(g) for g in o['obj'].groups)
        if named != sorted(lacking):
            ctx.violation('GroupMissingDataError names the wrong descriptors',
                          case, {'named': named, 'lacking': sorted(lacking)})
            return
        so = observe(str, o['obj'])
        if 'exc' in so:
            ctx.violation('str(GroupMissingDataError) raised', case, so)
            return
        ctx.nontrivial(key)
        return

    if 'exc' in o:
        uq = getattr(lib, 'uq_contents', None)
        if uq and o['exc'] == 'ValueError' and any(
                k not in [str(d) for d in uq['descriptors']]
                for k, _ in pairs):
            ctx.skip('descriptor outside the uncertainty basis of a UQ '
                     'library (C20 requires an error)')
            return
        rs = [lib[k]['thermochem'].get_range() for k, _ in pairs]
        rs = [r for r in rs if r is not None]
        if rs and max(r[0] for r in rs) > min(r[1] for r in rs) and \
                o['exc'] == 'AssertionError':
            # no temperature exists in the common range: the value clause is
            # vacuous and the statement does not say what Estimate should do
            ctx.skip('constituent ranges have an empty intersection')
            return
        sig = 'Estimate raised %s although every descriptor has data' % \
            o['exc']
        if case.get('fresh'):
            sig += ' [fresh library object]'
        ctx.violation(sig, case, {'msg': o['msg']})
        return
    est = o['ok']

    # ---- an older estimate of the same library is still what it was -------
    lk = case['lib'] if isinstance(case['lib'], str) else repr(case['lib'])
    prev = _PREV.get(lk)
    if prev is not None:
        pest, pT, pname, pval, pcase = prev
        po = observe(getattr(pest, pname), pT)
        ctx.evals()
        if 'exc' in po or repr(po['ok']) != pval:
            ctx.violation('an estimate made earlier changed its value after '
                          'another estimate was made from the same library',
                          dict(case, earlier=pcase),
                          {'method': pname, 'T': pT, 'before': pval,
                           'after': repr(po.get('ok', po.get('exc')))})
        else:
            ctx.count('earlier_estimates_re_evaluated')
        _PREV.pop(lk, None)

    # ---- the sum ---------------------------------------------------------
    rng = ctx.sub_rng('T', *[k for k, _ in pairs][:4])
    er = observe(est.get_range)
    est_range = er.get('ok')
    temps = temperatures(lib, pairs, est_range, rng, case.get('ntemps', 6))
    compared = 0
    for T in temps:
        vals = {}
        for name in PROPS:
            eo = observe(getattr(est, name), T)
            ctx.evals()
            terms = []
            incomplete = False
            other = None
            for k, cnt in pairs:
                co = observe(getattr(lib[k]['thermochem'], name), T)
                if 'exc' in co:
                    if co['exc'] == 'IncompleteDataError':
                        incomplete = True
                    else:
                        other = co
                    continue
                terms.append(cnt * co['ok'])
            if other is not None:
                ctx.skip('constituent raised %s inside the estimate range'
                         % other['exc'])
                continue
            if incomplete:
                if 'ok' in eo:
                    ctx.violation('%s returned a number although a '
                                  'constituent has no data for it' % name,
                                  case, {'T': T, 'value': repr(eo['ok'])})
                elif eo['exc'] != 'IncompleteDataError':
                    ctx.violation('%s raised %s, expected '
                                  'IncompleteDataError' % (name, eo['exc']),
                                  case, {'T': T, 'msg': eo['msg']})
                else:
                    compared += 1
                    ctx.klass('incomplete-data clause decided')
                continue
            if 'exc' in eo:
                ctx.violation('%s raised %s although all constituents '
                              'evaluate' % (name, eo['exc']), case,
                              {'T': T, 'msg': eo['msg']})
                continue
            v = eo['ok']
            if not is_plain_number(v):
                ctx.violation('%s is not a plain number' % name, case,
                              {'T': T, 'value': repr(v),
                               'type': type(v).__name__})
                continue
            want = math.fsum(terms)
            scale = math.fsum(abs(t) for t in terms) + 1.0
            if not close(v, want, rel=1e-10, abs_=0.0, scale=scale):
                ctx.violation('%s != sum(count*constituent)' % name, case,
                              {'T': T, 'got': float(v), 'want': want,
                               'terms': terms[:8]})
                continue
            vals[name] = float(v)
            compared += 1
            if not case.get('fresh'):
                _PREV[case['lib'] if isinstance(case['lib'], str)
                      else repr(case['lib'])] = (
                    est, T, name, repr(v), {'mapping': case['mapping']})
        if all(n in vals for n in ('get_HoRT', 'get_SoR', 'get_GoRT')):
            if not close(vals['get_GoRT'],
                         vals['get_HoRT'] - vals['get_SoR'], rel=1e-12,
                         scale=abs(vals['get_HoRT']) + abs(vals['get_SoR'])
                         + 1.0):
                ctx.violation('GoRT != HoRT - SoR on the estimate', case,
                              {'T': T, 'vals': vals})
    # ---- array temperatures (1-D, and 2-D whose row count equals the
    # number of entries: the shape a contraction over the wrong axis fits)
    if compared and temps and len(pairs) >= 1:
        ts_ = [temps[k % len(temps)] for k in range(3)]
        grids = [np.array(ts_, dtype=float),
                 np.array([ts_ for _ in range(len(pairs))], dtype=float),
                 np.array([ts_ for _ in range(len(pairs) + 1)], dtype=float)]
        scal = [observe(est.get_CpoR, t) for t in ts_]
        if all('ok' in x for x in scal):
            for g_ in grids:
                ao = observe(est.get_CpoR, g_)
                ctx.evals()
                if 'exc' in ao:
                    if g_.ndim == 1:
                        ctx.violation('get_CpoR(1-D array) raised %s on an '
                                      'estimate' % ao['exc'], case,
                                      {'msg': ao['msg']})
                    continue
                arr = np.asarray(ao['ok'], dtype=float)
                want_a = np.array([x['ok'] for x in scal], dtype=float)
                want_a = want_a if g_.ndim == 1 else np.array(
                    [want_a for _ in range(g_.shape[0])])
                if arr.shape != want_a.shape or not np.allclose(
                        arr, want_a, rtol=1e-10, atol=1e-12):
                    ctx.violation('get_CpoR(array of shape %s) differs from '
                                  'the scalar calls' % (g_.shape,), case,
                                  {'array': repr(arr)[:200],
                                   'scalars': want_a.tolist()[:2]})
                    break
            else:
                ctx.count('array_temperature_grids_checked', len(grids))
    # ---- the caller's mapping is the caller's: changing it afterwards
    # must not change the estimate
    if compared and mapping and temps:
        T0 = temps[0]
        b0 = observe(est.get_HoRT, T0)
        try:
            for k_ in list(mapping):
                mapping[k_] = mapping[k_] * 3 + 1
            mapping.clear()
        except Exception:
            pass
        a0 = observe(est.get_HoRT, T0)
        ctx.evals()
        if repr(a0.get('ok', a0.get('exc'))) != repr(b0.get('ok',
                                                            b0.get('exc'))):
            ctx.violation('changing the mapping after Estimate() changed the '
                          'estimate', case, {'before': repr(b0)[:120],
                                             'after': repr(a0)[:120]})
        else:
            ctx.count('caller_mapping_mutated_after_estimate')
    # ---- copies and unpickled copies of the estimate are the same estimate
    if compared and temps and len(repr(case['mapping'])) % 3 == 0 and \
            not case.get('aliases'):
        from vmon.core import clones
        o_c = observe(lib.Estimate, make_mapping(
            lib, pairs, case.get('keyform', 'str')), 'thermochem')
        if 'ok' in o_c:
            calls = [('%s(%r)' % (nm, T), lambda e_, nm=nm, T=T: repr(float(
                getattr(e_, nm)(T)))) for nm in PROPS
                for T in (temps[0], temps[-1])]
            calls.append(('get_range()', lambda e_: repr(e_.get_range())))
            clones.agreement(ctx, case, o_c['ok'], calls, 'estimate',
                             'before' if len(pairs) % 2 else 'after')
    if _contract['bad']:
        ctx.violation('estimator holds terms that are not one per key',
                      case, _contract['bad'][-1])
        del _contract['bad'][:]
    if compared:
        ctx.nontrivial(key)
        ctx.klass('keys as %s' % case.get('keyform', 'str'))
        if case.get('fresh'):
            ctx.klass('fresh never-used library object')
        ctx.sample({'lib': case['lib'], 'mapping': case['mapping'][:5],
                    'n_keys': len(pairs), 'temperatures': temps[:4],
                    'comparisons': compared})


# ---------------------------------------------------------------- workload
def lib_specs(ctx):
    specs = list(libs.LIBS)
    nsyn = 6 if ctx.tier == 'quick' else 40
    specs += [['synthetic', 's%d_%d' % (ctx.seed, i)] for i in range(nsyn)]
    return specs


def gen_cases(ctx):
    i = 0
    per_lib = 40 if ctx.tier == 'quick' else 600
    for spec in lib_specs(ctx):
        lib = get_lib(spec)
        names = [str(g) for g in keys_with_data(lib)]
        nodata = [str(g) for g in lib if 'thermochem' not in lib[g]]
        # (a) exhaustive unit vectors
        for k in names:
            if ctx.mine(i):
                yield {'lib': spec, 'mapping': [[k, 1]], 'ntemps': 8,
                       'kind': 'unit'}
            i += 1
        # (a') degenerate sizes: the empty mapping (an empty sum), a single
        # entry with count zero, the same group under two spellings is (d)
        if ctx.mine(i):
            yield {'lib': spec, 'mapping': [], 'kind': 'empty mapping'}
            if names:
                yield {'lib': spec, 'mapping': [[names[-1], 0]],
                       'kind': 'single zero count'}
        i += 1
        # (a'') equivalent groups: descriptors added in memory that carry the
        # data of an existing group (the same object, the same property set,
        # an equal copy), used together with their originals
        if not getattr(lib, 'uq_contents', None):
            for j in range(3 if ctx.tier == 'quick' else 12):
                if ctx.mine(i) and names:
                    r = ctx.sub_rng('alias', spec, j)
                    tg = r.sample(names, min(len(names), r.randint(1, 3)))
                    al = [['alias%d_of_%d' % (q, len(t)), t,
                           r.choice(['same', 'same', 'sameset', 'copy'])]
                          for q, t in enumerate(tg)]
                    if r.random() < 0.4:
                        al.append(['alias_again', tg[0], 'same'])
                    ks = list(tg) + [a[0] for a in al]
                    ks += r.sample(names, min(len(names), r.randint(0, 2)))
                    ks = list(dict.fromkeys(ks))
                    r.shuffle(ks)
                    yield {'lib': spec, 'aliases': al,
                           'mapping': [[k, r.choice(COUNTS)] for k in ks],
                           'keyform': r.choice(['str', 'obj']),
                           'kind': 'equivalent groups sharing data'}
                i += 1
        # (a3) scale: more descriptors in one mapping than any shipped
        # library has groups (the largest has 208): a library assembled in
        # memory from equal copies, 257 .. 1030 entries
        if not getattr(lib, 'uq_contents', None) and names:
            for nbig in (257, 300, 513, 1030):
                if ctx.mine(i) and (ctx.tier == 'thorough' or
                                    (i // 16 + ctx.seed) % 3 == 0):
                    r = ctx.sub_rng('big', spec, nbig)
                    al = [['copy%d' % q, names[q % len(names)], 'copy']
                          for q in range(nbig)]
                    yield {'lib': spec, 'aliases': al, 'ntemps': 2,
                           'mapping': [[a[0], r.choice([1, 2, -1, 0.5, 3])]
                                       for a in al],
                           'kind': 'mapping of %d descriptors' % nbig}
                i += 1
        # (e) fresh library, before any decomposition
        if ctx.mine(i) and names:
            yield {'lib': spec, 'mapping': [[names[0], 2]], 'fresh': True,
                   'kind': 'fresh'}
        i += 1
        # (b), (c) random mappings
        for j in range(per_lib):
            if not ctx.mine(i):
                i += 1
                continue
            i += 1
            r = ctx.sub_rng('map', spec, j)
            uqb = None
            if getattr(lib, 'uq_contents', None):
                uqb = [str(d) for d in lib.uq_contents['descriptors']]
            pool = [n for n in names if uqb is None or n in uqb] or names
            if not pool:
                continue
            if r.random() < 0.6:
                ks = r.sample(pool, min(len(pool), r.randint(1, 4)))
            else:
                ks = r.sample(pool, r.randint(1, len(pool)))
            pairs = [[k, r.choice(COUNTS)] for k in ks]
            kind = 'random'
            if r.random() < 0.3:
                kind = 'missing'
                absent = ['Xx(Yy)%d' % r.randint(2, 5), 'unknown-descriptor',
                          'C(H)3(Zz)'][:r.randint(1, 3)] + \
                    (r.sample(nodata, 1) if nodata else [])
                r.shuffle(absent)
                if r.random() < 0.25:
                    pairs = []
                for a in absent[:r.randint(1, 3)]:
                    pairs.insert(r.randint(0, len(pairs)), [a, r.choice(
                        COUNTS)])
            form = r.choice(['str', 'str', 'obj', 'defaultdict'])
            yield {'lib': spec, 'mapping': pairs, 'keyform': form,
                   'kind': kind, 'fresh': r.random() < 0.05,
                   'counttype': r.choice(['py'] * 6 + ['numpy', 'numpy32',
                                                       'fraction', 'float'])}


def check_threads(ctx, spec=None, rounds=3):
    """An estimate is a function of (library data, mapping): one library
    object estimating for four threads at once, and one estimator object
    evaluated by four threads at once, give what they give a lone caller
    (which the ordinary workload compares with the sum of the constituents).
    """
    from vmon.core import threads as TH
    specs = lib_specs(ctx)
    if spec is None:
        spec = specs[(ctx.seed + ctx.shard) % len(specs)]
    lib = get_lib(spec)
    names = [str(g) for g in keys_with_data(lib)]
    uq = getattr(lib, 'uq_contents', None)
    if uq:
        basis = [str(d) for d in uq['descriptors']]
        names = [n for n in names if n in basis] or names
    r = ctx.sub_rng('c01thr', repr(spec))
    maps = []
    for _ in range(8):
        ks = r.sample(names, min(len(names), r.randint(1, 5)))
        maps.append(dict((k, r.choice(COUNTS)) for k in ks))

    def values(est):
        rg = est.get_range()
        T = 0.5 * (rg[0] + rg[1]) if rg is not None else 298.15
        return repr([float(getattr(est, n)(T)) for n in PROPS])

    def make_jobs():
        jobs = []
        for mi, mp in enumerate(maps):
            def fresh(mp=mp):
                return values(lib.Estimate(dict(mp), 'thermochem'))
            jobs.append((('estimate', mi), fresh))
            try:
                shared = lib.Estimate(dict(mp), 'thermochem')
            except Exception:
                continue
            jobs.append((('evaluate shared estimator', mi),
                         lambda e=shared: values(e)))
        return jobs
    res = TH.stress(make_jobs, nthreads=4, rounds=rounds)
    TH.judge(ctx, res, 'Estimate on a shared library / evaluation of a '
             'shared estimator', {'what': 'thread stress', 'lib': spec})


def run_shard(ctx):
    if ctx.shard % 4 == 1:
        check_threads(ctx)
    for case in gen_cases(ctx):
        ctx.klass('workload ' + case.pop('kind', '?'))
        check_case(ctx, case)


def replay(ctx, case):
    if case.get('what') == 'thread stress':
        return check_threads(ctx, case['lib'], rounds=10)
    check_case(ctx, case)


def classify(v):
    return None


LEVEL_TEXT = ('Held on every executed mapping: exhaustive unit vectors over '
              'all groups of the nine shipped libraries plus sampled '
              'sparse/dense/missing-data mappings on shipped and synthetic '
              'libraries; each estimate value is compared with an independent '
              'fsum of the constituents\' own observed values and each '
              'failure clause with the exact exception class and named '
              'groups. Exploration: the mapping space is sampled.')
