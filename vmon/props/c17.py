"""C17 -- a generated network is the duplicate-free closure of its seeds.

Monitor kind: reference model (independent breadth-first closure with its own
work-list, its own species identity = H-explicit labelled-graph isomorphism,
its own statement of the valence filter; single rule applications reuse the
rule objects' RunReactants, a primitive owned by C16/RDKit) beside
GenerateRxnNet; rule-application budget for termination.
"""
import itertools

from rdkit import Chem
from rdkit.Chem.AllChem import ReactionFromSmarts

from vmon.core.obs import observe, StepBudgetExceeded
from vmon.refs import rxn as X

TECHNIQUE = ('runtime monitoring: reference-model oracle (independent '
             'breadth-first closure, graph-isomorphism species identity, own '
             'valence filter) + rule-application budget for termination')
RULE = ('seed sets of 1-2 distinct small molecules x all non-empty subsets '
        '(<=3) of a pool of bond-scission / dehydrogenation / bond-order '
        'rules given as reaction SMARTS and as RING rule text; fresh list '
        'objects per call. Non-trivial = a (seeds, rules) whose closure has '
        '>=3 species and whose returned list was compared species by species; '
        'distinct by (seeds, rules). Termination: at most 50x the rule '
        'applications the reference closure needed.'
        ' Entry forms: rule objects; rule TEXT (RING first, SMARTS '
        'fallback) with str seeds, with Mol seeds, and a bare string / bare '
        'rule instead of lists. '
        ' '
        'Round 17: twelve small networks generated from rule texts by four'
        ' threads at once.'
        ' '
        'Round 20: seeds written with atom-map labels.')
ASSUMPTIONS = [
    'unimolecular rules; closures above 250 species are skipped (counted)',
    'RunReactants of a single rule on a single species is a primitive '
    '(C16 / RDKit); species containing rings of six sp2 carbons are not '
    'generated (the result is re-aromatised on output)',
]
CONFIG = {
    'shards': {'quick': 16, 'thorough': 16},
    'min_nontrivial': {'quick': 600, 'thorough': 4000},
    'timeout': {'quick': 1200, 'thorough': 14400},
    'required_counters': ['networks_compared', 'ring_text_rule_networks',
                          'entry: text', 'entry: mols', 'entry: objects'],
}
ANCHORS = [
    'pgradd.RDkitWrapper.GenRxnNet:GenerateRxnNet',
    'pgradd.RDkitWrapper.GenRxnNet:_sanitize_except_aromatization',
]
SEEDS = ['CC', 'CCC', 'CO', 'CCO', 'C=C', 'C=O', 'COC', 'C1CC1', '[CH3]',
         'O', 'C', 'OO', 'C=CC', 'CC=O', 'OCO', 'C[CH2]', 'C1CO1', 'CC(C)C',
         'OCCO', 'C#C', '[CH2]C[CH2]', '[CH2][CH2]', '[CH2]CC[CH2]']
SMARTS_RULES = {
    'C-H scission': '[C:1][H:2]>>[C:1].[H:2]',
    'O-H scission': '[O:1][H:2]>>[O:1].[H:2]',
    'C-C scission': '[C:1]-[C:2]>>[C:1].[C:2]',
    'C-O scission': '[C:1]-[O:2]>>[C:1].[O:2]',
    'dehydrogenation to C=C':
        '[H:3][C:1]-[C:2][H:4]>>[C:1]=[C:2].[H:3][H:4]',
    'dehydrogenation to C=O':
        '[H:3][C:1]-[O:2][H:4]>>[C:1]=[O:2].[H:3][H:4]',
    'bond order increase C-C': '[C:1]-[C:2]>>[C:1]=[C:2]',
    'bond order decrease C=C': '[C:1]=[C:2]>>[C:1]-[C:2]',
    '1,3-diradical ring closure':
        '[C;X3:1][C:3][C;X3:2]>>[C:1]1[C:3][C:2]1',
    '1,2-diradical to C=C': '[C;X3:1]-[C;X3:2]>>[C:1]=[C:2]',
}
RING_RULES = {
    'C-H scission': 'rule ch{reactant r1{C? labeled c1 H labeled h1 single '
                    'bond to c1} break bond (c1,h1) increase number of '
                    'radical (c1) increase number of radical (h1)}',
    'C-C scission': 'rule cc{reactant r1{C? labeled c1 C? labeled c2 single '
                    'bond to c1} break bond (c1,c2) increase number of '
                    'radical (c1) increase number of radical (c2)}',
    'O-H scission': 'rule oh{reactant r1{O? labeled o1 H labeled h1 single '
                    'bond to o1} break bond (o1,h1) increase number of '
                    'radical (o1) increase number of radical (h1)}',
    'C-O scission': 'rule co{reactant r1{C? labeled c1 O? labeled o1 single '
                    'bond to c1} break bond (c1,o1) increase number of '
                    'radical (c1) increase number of radical (o1)}',
}
RING_RULES.update({
    'dehydrogenation to C=C':
        'rule dh{reactant r1{C? labeled c1 C? labeled c2 single bond to c1 H '
        'labeled h1 single bond to c1 H labeled h2 single bond to c2} break '
        'bond (c1,h1) break bond (c2,h2) increase bond order (c1,c2) form '
        'bond (h1,h2)}',
    'C=C to diradical':
        'rule dr{reactant r1{C? labeled c1 C? labeled c2 double bond to c1} '
        'decrease bond order (c1,c2) increase number of radical (c1) '
        'increase number of radical (c2)}',
    '1,2-diradical to C=C':
        'rule rc{reactant r1{C. labeled c1 C. labeled c2 single bond to c1} '
        'increase bond order (c1,c2) decrease number of radical (c1) '
        'decrease number of radical (c2)}',
})
# rules whose pattern fits the same atoms in more than one way while the
# edit is NOT symmetric under that exchange (need >= 4 heavy atoms to show)
RING_RULES.update({
    'beta scission':
        'rule bs{reactant r1{C. labeled c1 C? labeled c2 single bond to c1 '
        'C? labeled c3 single bond to c2} break bond (c2,c3) increase bond '
        'order (c1,c2) decrease number of radical (c1) increase number of '
        'radical (c3)}',
    '1,2-H shift':
        'rule hs{reactant r1{C. labeled c1 C? labeled c2 single bond to c1 '
        'H labeled h1 single bond to c2} break bond (c2,h1) form bond '
        '(c1,h1) decrease number of radical (c1) increase number of radical '
        '(c2)}',
})
SEEDS4 = ['[CH2]C[CH]C', '[CH2]CCC', 'C[CH]CC', 'CC(C)[CH2]', '[CH2]C(C)C',
          'C[CH]C(C)C', '[CH2]CC[CH2]']
DEFAULT_VALENCE = {1: 1, 6: 4, 7: 3, 8: 2}


class CountingRule(object):
    """Proxy around a rule object that counts single rule applications and
    enforces the budget (a BaseException no handler in the library catches)."""
    def __init__(self, rule, counter):
        self.rule = rule
        self.counter = counter

    def GetNumReactantTemplates(self):
        return self.rule.GetNumReactantTemplates()

    def RunReactants(self, reactants):
        self.counter['n'] += 1
        if self.counter['budget'] is not None and \
                self.counter['n'] > self.counter['budget']:
            raise StepBudgetExceeded(self.counter['n'])
        return self.rule.RunReactants(reactants)


def make_rule(kind, name):
    if kind == 'smarts':
        return ReactionFromSmarts(SMARTS_RULES[name])
    from pgradd.RINGParser import Read
    return Read(RING_RULES[name])


def prepare(m):
    """Explicit-H, no-implicit form in which species are fed to rules."""
    m = Chem.AddHs(m)
    for a in m.GetAtoms():
        a.SetNoImplicit(True)
        a.UpdatePropertyCache(strict=False)
    Chem.AssignRadicals(m)
    return m


def graph_id(m):
    g = X.graph_of(m)
    for _, d in g.nodes(data=True):
        d['r'] = 0           # radicals follow from the graph
    return g


def overvalent(g):
    for n, d in g.nodes(data=True):
        v = sum(e['o'] for _, _, e in g.edges(n, data=True))
        if v > DEFAULT_VALENCE.get(d['z'], 8) + 1e-9:
            return True
    return False


def find(g, pool):
    sig = X.signature(g)
    for k, (s2, g2) in enumerate(pool):
        if s2 == sig and X.isomorphic(g, g2):
            return k
    return None


def reference_closure(seed_smiles, rules, cap=250):
    """Own BFS closure.  Returns (list of graphs, rule applications) or
    (None, n) when the cap is exceeded."""
    species = []          # (signature, graph)
    mols = []
    work = []
    for s in seed_smiles:
        m = prepare(Chem.MolFromSmiles(s))
        g = graph_id(m)
        if find(g, species) is None:
            species.append((X.signature(g), g))
            mols.append(m)
            work.append(m)
    napp = 0
    while work:
        m = work.pop(0)
        for rule in rules:
            napp += 1
            for prods in rule.RunReactants((m,)):
                for p in prods:
                    for a in p.GetAtoms():
                        a.SetNoImplicit(True)
                        a.UpdatePropertyCache(strict=False)
                    Chem.AssignRadicals(p)
                    g = graph_id(p)
                    if overvalent(g):
                        continue
                    if find(g, species) is None:
                        species.append((X.signature(g), g))
                        mols.append(p)
                        work.append(p)
                        if len(species) > cap:
                            return None, napp
    return species, napp


_RULE_OBJECTS = {}


def check_case(ctx, case):
    from pgradd.RDkitWrapper.GenRxnNet import GenerateRxnNet
    seeds = case['seeds']
    kind = case['kind']
    names = case['rules']
    ref_rules = [make_rule(kind, n) for n in names]
    ref, napp = reference_closure(seeds, ref_rules)
    if ref is None:
        ctx.skip('closure above 250 species')
        return
    counter = {'n': 0, 'budget': 50 * napp + 50}
    entry = case.get('entry', 'objects')
    import pgradd.RDkitWrapper.GenRxnNet as G
    saved = (G.Read, G.ReactionFromSmarts)
    if entry == 'objects':
        # rule OBJECTS live as long as the shard: each is applied to the
        # species of many networks, as a user's rule set would be
        real_rules = []
        for n in names:
            if (kind, n) not in _RULE_OBJECTS:
                _RULE_OBJECTS[(kind, n)] = make_rule(kind, n)
            else:
                ctx.count('rule_objects_reused_across_networks')
            real_rules.append(CountingRule(_RULE_OBJECTS[(kind, n)], counter))
        real_seeds = list(seeds)
    else:
        # the documented entry: rules handed over as TEXT (RING text, or
        # reaction SMARTS through the function's fallback).  The two names
        # the function resolves them with are wrapped in its namespace so
        # that the rule objects it builds itself are counted as well.
        table = SMARTS_RULES if kind == 'smarts' else RING_RULES
        real_rules = [table[n] for n in names]
        G.Read = lambda t: CountingRule(saved[0](t), counter)
        G.ReactionFromSmarts = lambda t: CountingRule(saved[1](t), counter)
        real_seeds = list(seeds)
        if entry == 'mols':
            real_seeds = [Chem.MolFromSmiles(x) for x in seeds]
        if entry == 'single':
            real_seeds = seeds[0]
            real_rules = real_rules[0]
    try:
        try:
            o = observe(GenerateRxnNet, real_seeds, real_rules)
        finally:
            G.Read, G.ReactionFromSmarts = saved
    except StepBudgetExceeded:
        ctx.violation('network generation did not terminate within 50x the '
                      'reference number of rule applications', case,
                      {'reference_applications': napp,
                       'budget': counter['budget']})
        return
    ctx.evals()
    ctx.maximum('max_rule_applications_real_over_reference_x100',
                int(100.0 * counter['n'] / max(napp, 1)))
    if 'exc' in o:
        ctx.violation('GenerateRxnNet raised %s' % o['exc'], case,
                      {'msg': o['msg']})
        return
    got = []
    for m in o['ok']:
        try:
            got.append(graph_id(Chem.AddHs(m)))
        except Exception as exc:
            ctx.violation('returned species cannot be expanded to explicit H',
                          case, {'exc': repr(exc)})
            return
    smiles = [Chem.MolToSmiles(m) for m in o['ok']]
    # duplicates
    pool = []
    for k, g in enumerate(got):
        j = find(g, pool)
        if j is not None:
            ctx.violation('a species is listed twice', case,
                          {'species': smiles[k], 'positions': [j, k],
                           'returned': smiles})
            return
        pool.append((X.signature(g), g))
    # returned subset of closure, closure subset of returned
    missing = [k for k, (s, g) in enumerate(ref) if find(g, pool) is None]
    extra = [smiles[k] for k, g in enumerate(got) if find(g, ref) is None]
    if extra:
        ctx.violation('returned list contains a species outside the closure',
                      case, {'extra': extra[:5], 'returned': smiles})
        return
    if missing:
        ctx.violation('a species of the closure is missing', case,
                      {'n_missing': len(missing), 'returned': smiles,
                       'closure_size': len(ref)})
        return
    for s in seeds:
        g = graph_id(prepare(Chem.MolFromSmiles(s)))
        if find(g, pool) is None:
            ctx.violation('a seed is missing from the network', case,
                          {'seed': s, 'returned': smiles})
            return
    ctx.count('networks_compared')
    ctx.count('entry: ' + entry)
    if entry != 'objects' and counter['n'] == 0:
        ctx.count('text_entry_rule_objects_not_counted')
    if kind == 'ring':
        ctx.count('ring_text_rule_networks')
    if not names or not seeds:
        ctx.count('degenerate_networks (no rule / no seed)')
        ctx.nontrivial([seeds, kind, names])
    if len(ref) >= 3:
        ctx.nontrivial([seeds, kind, names])
        ctx.klass('closure of %s species' % ('3-9' if len(ref) < 10 else
                                             '10-29' if len(ref) < 30 else
                                             '>=30'))
        if ctx.rng.random() < 0.03:
            ctx.sample({'seeds': seeds, 'rules': names, 'kind': kind,
                        'network': smiles[:25], 'size': len(smiles),
                        'rule_applications': counter['n'],
                        'reference_rule_applications': napp})


def cases(ctx):
    out = []
    seedsets = [[s] for s in SEEDS] + [list(p) for p in
                                       itertools.combinations(SEEDS[:9], 2)]
    for kind, pool in (('smarts', list(SMARTS_RULES)),
                       ('ring', list(RING_RULES))):
        subsets = []
        for k in (1, 2, 3):
            subsets += [list(c) for c in itertools.combinations(pool, k)]
        for ss in seedsets:
            for rs in subsets:
                k = len(out)
                entry = ('objects', 'text', 'mols', 'text', 'single')[k % 5]
                if entry == 'single' and (len(ss) != 1 or len(rs) != 1):
                    entry = 'text'
                out.append({'seeds': ss, 'kind': kind, 'rules': rs,
                            'entry': entry})
    # asymmetric RING rules on radicals of four heavy atoms
    for ss in SEEDS4:
        for rs in (['beta scission'], ['1,2-H shift'],
                   ['beta scission', '1,2-H shift'],
                   ['beta scission', 'C-H scission'],
                   ['1,2-H shift', 'C-C scission']):
            out.append({'seeds': [ss], 'kind': 'ring', 'rules': rs,
                        'entry': ('objects', 'text')[len(out) % 2],
                        'asym': True})
    # seeds written WITH their configuration (stereo centre, E/Z): species
    # identity is the constitution, a regenerated unmarked copy is the same
    for ss in (['C[C@H](O)[CH2]'], ['C[C@@H](O)C=C'], [r'C/C=C/C'],
               [r'C/C=C\C'], [r'O/C=C/C']):
        for kind, rs in (('smarts', ['bond order increase C-C',
                                     'bond order decrease C=C']),
                         ('smarts', ['dehydrogenation to C=C',
                                     'bond order decrease C=C']),
                         ('ring', ['1,2-H shift']),
                         ('ring', ['C=C to diradical',
                                   '1,2-diradical to C=C'])):
            out.append({'seeds': ss, 'kind': kind, 'rules': rs,
                        'entry': ('objects', 'text', 'mols')[len(out) % 3],
                        'asym': True})
    # seeds written WITH atom-map labels ([CH2:1]=C): a label is not part of
    # the species; the same species reached again without it (reaction SMARTS
    # strip labels from products) or with it elsewhere is the same species
    for ss in (['[CH2:1]=C'], ['[CH3:1]C'], ['[CH3:1]CC'], ['[CH3:7][OH:2]'],
               ['C[CH2:3]O'], ['[CH2:1]=[CH:2]C'], ['[CH3:1][CH2]']):
        for kind, rs in (('smarts', ['bond order increase C-C',
                                     'bond order decrease C=C']),
                         ('smarts', ['dehydrogenation to C=C',
                                     'bond order decrease C=C']),
                         ('smarts', ['C-H scission']),
                         ('ring', ['C=C to diradical',
                                   '1,2-diradical to C=C']),
                         ('ring', ['C-C scission', 'C-H scission'])):
            out.append({'seeds': ss, 'kind': kind, 'rules': rs,
                        'entry': ('objects', 'text', 'mols')[len(out) % 3],
                        'asym': True, 'labelled': True})
    # degenerate sizes: no rule at all (the closure is the seed set), no seed
    for ss in seedsets[:12]:
        out.append({'seeds': ss, 'kind': 'smarts', 'rules': [],
                    'entry': 'objects'})
        out.append({'seeds': ss, 'kind': 'ring', 'rules': [],
                    'entry': 'text'})
    for kind, pool in (('smarts', list(SMARTS_RULES)),
                       ('ring', list(RING_RULES))):
        out.append({'seeds': [], 'kind': kind, 'rules': pool[:2],
                    'entry': 'text'})
    return out


THREAD_NETS = [(['CC'], 'smarts', ['C-H scission', 'C-C scission']),
               (['CCO'], 'smarts', ['C-O scission', 'O-H scission']),
               (['CCC'], 'ring', ['C-C scission']),
               (['CO'], 'ring', ['C-H scission', 'O-H scission']),
               (['C=C'], 'ring', ['C=C to diradical']),
               (['[CH2]CCC'], 'ring', ['beta scission']),
               (['C[CH]CC'], 'ring', ['1,2-H shift']),
               (['CC', 'CO'], 'smarts', ['dehydrogenation to C=C']),
               (['C1CC1'], 'smarts', ['C-C scission']),
               (['[CH2]C[CH2]'], 'smarts', ['1,3-diradical ring closure']),
               (['OCCO'], 'ring', ['C-C scission', 'C-O scission']),
               (['CC'], 'ring', [])]


def check_threads(ctx, rounds=2):
    """A network is a function of (seeds, rule texts): networks generated by
    four threads at once from TEXT rules (every call builds its own rule
    objects) are the species lists a lone call returns, in the same order."""
    from vmon.core import threads as TH
    from pgradd.RDkitWrapper.GenRxnNet import GenerateRxnNet

    def make_jobs():
        jobs = []
        for k, (seeds, kind, names) in enumerate(THREAD_NETS):
            table = SMARTS_RULES if kind == 'smarts' else RING_RULES

            def thunk(seeds=seeds, rules=[table[n] for n in names]):
                return repr([Chem.MolToSmiles(m) for m in GenerateRxnNet(
                    list(seeds), list(rules))])
            jobs.append((k, thunk))
        return jobs
    res = TH.stress(make_jobs, nthreads=4, rounds=rounds, watchdog=600)
    TH.judge(ctx, res, 'network generation from rule texts',
             {'what': 'thread stress'})


def run_shard(ctx):
    if ctx.shard % 4 == 1:
        check_threads(ctx)
    allc = cases(ctx)
    r = ctx.sub_rng('c17')
    r.shuffle(allc)
    if ctx.tier == 'quick':
        allc = [c for c in allc if not c['rules'] or not c['seeds']
                or c.get('asym')] + \
            [c for c in allc if c['rules'] and c['seeds'] and
             not c.get('asym')][:2000]
    for i, c in enumerate(allc):
        if ctx.mine(i):
            check_case(ctx, c)


def replay(ctx, case):
    if case.get('what') == 'thread stress':
        return check_threads(ctx, rounds=8)
    check_case(ctx, case)


def classify(v):
    return None


LEVEL_TEXT = ('Held on every executed (seed set, rule set): single seeds and '
              'pairs x all rule subsets of size <=3 from 10 reaction-SMARTS '
              'and 7 RING-text rules (quick: a 2000-case sample, thorough: '
              'all); the returned list is compared with an independent '
              'breadth-first closure up to graph isomorphism (both '
              'inclusions, seeds, no duplicates) and termination is bounded '
              'by counted rule applications.')
