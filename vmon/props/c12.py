"""C12 -- loading a library does not depend on the units its data use.

Monitor kind: relational oracle (several presentations of one abstract data
set loaded through the real loader must agree pairwise and with the abstract
non-dimensional values) + type invariant on stored values + exception oracle
for the rejection clause.
"""
import math
import random

from vmon.core.obs import observe, is_plain_number, close
from vmon.core import libs
from vmon.gen import libfiles
from vmon.refs import units as U

TECHNIQUE = ('runtime monitoring: relational (metamorphic) oracle over unit '
             'presentations of one abstract data set + stored-value type '
             'invariant + exception oracle for unit-less dimensional values')
RULE = ('synthetic libraries (1-6 groups, tables of 0-10 points, H/S/Cp values '
        'from {0, 0.0, negative, typical, tiny}, ranges) each rendered as: '
        'non-dimensional keys; units: block + bare numbers for {kcal,kJ,J,cal}'
        '/mol, eV/molecule; explicit unit strings with prefixes on every '
        'value; random per-value mixtures; temperatures in K / mK / kK; plus '
        'rejection cases (bare dimensional number without a default unit of '
        'its kind). Non-trivial = an abstract library for which >=3 '
        'presentations loaded and every group was compared at >=3 '
        'temperatures; distinct by abstract data.'
        ' '
        'Round 17: six files with different default-unit blocks and three'
        ' unit-less files loaded from four threads at once.')
ASSUMPTIONS = [
    'numbers are written without exponent notation (the units tokenizer does '
    'not read it)',
    'all temperatures of one group are written in the same unit, so T_ref, '
    'table and range convert consistently (298150 mK -> 298.15000000000003 K)',
    'presentations using measured constants (eV/molecule) agree to 1e-6, '
    'others to 1e-9',
    'for the rejection clause only "loading fails" is judged; the exception '
    'class is recorded',
]
CONFIG = {
    'shards': {'quick': 16, 'thorough': 16},
    'min_nontrivial': {'quick': 500, 'thorough': 4000},
    'required_counters': ['rejections_decided'],
}
ANCHORS = [
    'pgradd.yaml_io.builtins:qty_loader.__call__',
    'pgradd.ThermoChem.incomplete:ThermochemIncomplete.yaml_construct',
    'pgradd.GroupAdd.Library:GroupLibrary._do_load',
    'pgradd.yaml_io.schema:ObjectLoader.__call__',
]
H_UNITS = ['kcal/mol', 'kJ/mol', 'J/mol', 'cal/mol', 'eV/molecule',
           'MJ/kmol', 'J/mmol', 'mJ/umol', 'kJ/kmol', 'erg/umol',
           'kW h/kmol', 'N m/mol',
           # every SI prefix the units table knows, on the joule
           'aJ/molecule', 'daJ/mol', 'hJ/mol', 'dJ/mmol', 'cJ/mmol',
           'uJ/nmol', 'nJ/nmol', 'pJ/pmol', 'fJ/molecule', 'GJ/Mmol',
           'TJ/Gmol', 'dacal/mol', 'hcal/mol']
S_UNITS = ['cal/(mol*K)', 'J/(mol K)', 'kJ/(mol K)', 'J/mol/K', 'cal/mol/K',
           'eV/(molecule K)', 'mJ/(mmol K)', 'kcal/(kmol*K)', 'J/(mol*mK)',
           'kJ/(kmol K)', 'daJ/(mol K)', 'aJ/(molecule K)', 'hJ/(mol hK)',
           'dJ/(mol dK)', 'cJ/(mmol K)', 'dacal/(mol daK)']
T_UNITS = [('K', 1.0), ('mK', 1e-3), ('kK', 1e3), ('cK', 1e-2)]
BLOCKS = [
    {'molar enthalpy': 'kcal/mol', 'molar entropy': 'cal/(mol*K)',
     'molar heat capacity': 'cal/(mol*K)', 'temperature': 'K'},
    {'molar enthalpy': 'kJ/mol', 'molar entropy': 'J/(mol K)',
     'molar heat capacity': 'J/(mol K)', 'temperature': 'K'},
    {'molar enthalpy': 'J/mol', 'molar entropy': 'J/mol/K',
     'molar heat capacity': 'kJ/(mol K)', 'temperature': 'K'},
    {'molar enthalpy': 'cal/mol', 'molar entropy': 'kcal/(kmol*K)',
     'molar heat capacity': 'cal/mol/K', 'temperature': 'mK'},
    {'molar enthalpy': 'eV/molecule', 'molar entropy': 'eV/(molecule K)',
     'molar heat capacity': 'eV/(molecule K)', 'temperature': 'K'},
]
_fac = {}


def factor(unit):
    """(SI value of one unit, measured weight) from the harness's reference."""
    if unit not in _fac:
        from vmon.props.c10 import parse_own
        v = U.evaluate(parse_own(unit))
        _fac[unit] = (float(v.mag), v.measured)
    return _fac[unit]


def abstract_library(rng):
    groups = {}
    for i in range(rng.randint(1, 6)):
        g = libfiles.random_group(rng)
        # values from {0, 0.0, negative, typical, tiny}
        if g['H'] is not None and rng.random() < 0.25:
            g['H'] = rng.choice([0.0, 0.0, -0.000123, 1e-6])
        if g['S'] is not None and rng.random() < 0.25:
            g['S'] = rng.choice([0.0, 0.0, -0.000123, 1e-6])
        for T in list(g['Cp']):
            if rng.random() < 0.15:
                g['Cp'][T] = rng.choice([0.0, -1.25, 1e-6])
        groups['G%d(H)%d' % (i, i + 2)] = g
    return groups


def presentation(rng, kind, groups):
    """-> (units block or None, per-group pres dict, measured weight)."""
    block = None
    pres = {}
    weight = 0.0
    if kind == 'nd':
        for n in groups:
            pres[n] = {}
        return block, pres, weight
    if kind == 'default':
        block = dict(rng.choice(BLOCKS))
        fh = factor(block['molar enthalpy'])
        fs = factor(block['molar entropy'])
        fc = factor(block['molar heat capacity'])
        ft = factor(block['temperature'])
        weight = max(fh[1], fs[1], fc[1])
        for n in groups:
            pres[n] = {'H': ('bare', fh[0]), 'S': ('bare', fs[0]),
                       'Cp': ('bare', fc[0]), 'T': ('bare', ft[0])}
        return block, pres, weight
    if kind == 'explicit':
        for n in groups:
            hu, su, cu = rng.choice(H_UNITS), rng.choice(S_UNITS), \
                rng.choice(S_UNITS)
            tu = rng.choice(T_UNITS)
            weight = max(weight, factor(hu)[1], factor(su)[1], factor(cu)[1])
            pres[n] = {'H': ('unit', hu, factor(hu)[0]),
                       'S': ('unit', su, factor(su)[0]),
                       'Cp': ('unit', cu, factor(cu)[0]),
                       'T': ('unit', tu[0], tu[1])}
        return block, pres, weight
    # mixture: a block plus random per-part choices
    block = dict(rng.choice(BLOCKS))
    block['temperature'] = 'K'
    for n in groups:
        p = {}
        for part, units, bk in (('H', H_UNITS, 'molar enthalpy'),
                                ('S', S_UNITS, 'molar entropy'),
                                ('Cp', S_UNITS, 'molar heat capacity')):
            c = rng.random()
            if c < 0.34:
                p[part] = ('nd',)
            elif c < 0.67:
                f = factor(block[bk])
                weight = max(weight, f[1])
                p[part] = ('bare', f[0])
            else:
                u = rng.choice(units)
                weight = max(weight, factor(u)[1])
                p[part] = ('unit', u, factor(u)[0])
        tu = rng.choice(T_UNITS + [None])
        p['T'] = ('bare', 1.0) if tu is None else ('unit', tu[0], tu[1])
        # bare numbers also in the spellings PyYAML reads as text
        p['numeral'] = rng.choice(['plain', 'plain', 'quoted', 'nolead'])
        pres[n] = p
    return block, pres, weight


def load_text(text):
    with libfiles.TempTree() as tree:
        p = libfiles.write_library(tree, 'library.yaml', text)
        return observe(libs.fresh, p)


def probes(g, rng):
    if g['range'] is None:
        return [g['T_ref']]
    lo, hi = g['range']
    d = (hi - lo) * 1e-4
    out = [lo + d, hi - d, rng.uniform(lo + d, hi - d)]
    if lo + d <= g['T_ref'] <= hi - d:
        out.append(g['T_ref'])
    return out if hi > lo else [g['T_ref']]


def magnitude_scale(g, T):
    """Size of the terms a value at T is made of (H_ref*T_ref/T, S_ref and
    the Cp integrals may cancel): errors are relative to this, not to the
    possibly tiny result."""
    cp = max([abs(v) for v in g['Cp'].values()] or [0.0])
    span = abs(g['range'][1] - g['range'][0]) if g['range'] else 0.0
    return abs(g['H'] or 0) * g['T_ref'] / T + abs(g['S'] or 0) + \
        cp * (1.0 + span / T) + 1e-9


def check_case(ctx, case):
    rng = random.Random('c12:%s' % case['key'])
    groups = abstract_library(rng)
    kinds = ['nd', 'default', 'explicit', 'mixture', 'default', 'explicit',
             'mixture']
    loaded = []
    for k in kinds:
        block, pres, weight = presentation(rng, k, groups)
        for n in pres:
            # the documented default reference temperature may be left out
            # (only with temperatures written in plain K: 29815 cK converts
            # to 298.15000000000003 K, and a range starting there would
            # -- correctly -- exclude the exact default 298.15 K)
            tp = pres[n].get('T', ('unit', 'K', 1.0))
            plain_k = (tp[0] == 'unit' and tp[2] == 1.0) or \
                (tp[0] == 'bare' and tp[1] == 1.0)
            if groups[n]['T_ref'] == 298.15 and plain_k and \
                    rng.random() < 0.5:
                pres[n] = dict(pres[n], omit_T_ref=True)
                ctx.count('groups_written_without_T_ref')
        text = libfiles.render_library(groups, units=block, pres=pres)
        o = load_text(text)
        ctx.evals()
        c = dict(case, presentation=k)
        if 'exc' in o:
            ctx.violation('presentation %r failed to load (%s)' % (
                k, o['exc']), c, {'msg': o['msg'], 'text': text[:1500]})
            return
        loaded.append((k, o['ok'], weight, text))
    # one more presentation: the groups split over two files, each with its
    # OWN default-unit block (the top file includes the second one)
    names = list(groups)
    if len(names) >= 2:
        half = len(names) // 2
        g1 = {n: groups[n] for n in names[:half]}
        g2 = {n: groups[n] for n in names[half:]}
        b1, p1, w1 = presentation(rng, 'default', g1)
        b2, p2, w2 = presentation(rng, 'default', g2)
        tries = 0
        while b2 == b1 and tries < 5:
            b2, p2, w2 = presentation(rng, 'default', g2)
            tries += 1
        t1 = libfiles.render_library(g1, units=b1, pres=p1,
                                     include=['part2.yaml'])
        t2 = libfiles.render_library(g2, units=b2, pres=p2)
        with libfiles.TempTree() as tree:
            tree.write('part2.yaml', t2)
            pth = libfiles.write_library(tree, 'library.yaml', t1)
            o = observe(libs.fresh, pth)
        ctx.evals()
        if 'exc' in o:
            ctx.violation('two files with different default-unit blocks '
                          'failed to load (%s)' % o['exc'], case,
                          {'msg': o['msg'], 'top': t1[:600],
                           'included': t2[:600]})
            return
        loaded.append(('two files, own unit blocks', o['ok'], max(w1, w2),
                       t1 + '--- part2.yaml ---\n' + t2))
        ctx.count('two_file_presentations')
    ok = True
    for name, g in groups.items():
        pr = random.Random('c12p:%s:%s' % (case['key'], name))
        temps = probes(g, pr)
        ref_vals = None
        for k, lib, weight, text in loaded:
            c = dict(case, presentation=k, group=name)
            ent = lib[name]
            if 'thermochem' not in ent:
                ctx.violation('group lost by the loader', c, {})
                return
            th = ent['thermochem']
            rel = 1e-9 + 1e-6 * weight
            # stored values are plain numbers and equal the abstract data
            stored = [('ND_H_ref', th.ND_H_ref, g['H']),
                      ('ND_S_ref', th.ND_S_ref, g['S'])]
            for T, v in (th.ND_Cp_data or {}).items():
                if not is_plain_number(T):
                    stored.append(('ND_Cp_data key', T, None))
                stored.append(('ND_Cp_data[%g]' % float(T), v, None))
            for what, v, want in stored:
                if v is None and want is None:
                    continue
                if (v is None) != (want is None) and what.startswith('ND_') \
                        and '[' not in what and 'key' not in what:
                    ctx.violation('presence of %s changed by the '
                                  'presentation [%s]' % (what, k), c,
                                  {'stored': repr(v), 'abstract': want,
                                   'zero': want == 0})
                    ok = False
                    continue
                if not is_plain_number(v):
                    ctx.violation('%s stored as a non-plain number [%s]%s' % (
                        what.split('[')[0], k,
                        ' (zero value)' if want == 0 or 'Cp' in what and
                        getattr(v, 'value', 1) == 0 else ''), c,
                        {'stored': repr(v)[:120]})
                    ok = False
                    continue
                if want is not None and not close(v, want, rel=rel,
                                                  abs_=1e-15):
                    ctx.violation('%s differs from the abstract value [%s]'
                                  % (what, k), c, {'stored': float(v),
                                                   'abstract': want})
                    ok = False
            if len(th.ND_Cp_data or {}) != len(g['Cp']):
                ctx.violation('number of Cp points changed [%s]' % k, c,
                              {'stored': len(th.ND_Cp_data or {}),
                               'abstract': len(g['Cp'])})
                ok = False
            if not ok:
                return
            vals = []
            for T in temps:
                row = []
                for m in ('get_CpoR', 'get_HoRT', 'get_SoR'):
                    e = observe(getattr(th, m), T)
                    ctx.evals()
                    if 'exc' in e:
                        row.append(e['exc'])
                    elif not is_plain_number(e['ok']):
                        ctx.violation('%s is not a plain number [%s]' % (
                            m, k), c, {'T': T, 'value': repr(e['ok'])[:100]})
                        return
                    else:
                        row.append(float(e['ok']))
                vals.append(row)
            if ref_vals is None:
                ref_vals = (k, vals)
                continue
            for T, ra, rb in zip(temps, ref_vals[1], vals):
                for m, a, b in zip(('CpoR', 'HoRT', 'SoR'), ra, rb):
                    same = (a == b) if isinstance(a, str) or \
                        isinstance(b, str) else close(
                            a, b, rel=rel, abs_=1e-12,
                            scale=max(abs(a), abs(b), magnitude_scale(g, T)))
                    if not same:
                        ctx.violation('presentations disagree on %s' % m, c,
                                      {'T': T, ref_vals[0]: a, k: b})
                        return
    ctx.nontrivial(['lib', case['key']])
    ctx.klass('abstract libraries compared over 7 presentations')
    ctx.sample({'key': case['key'], 'groups': len(groups),
                'presentations': kinds,
                'example_text': loaded[2][3][:400]})


REJECT = [
    ('H_ref bare, no units block', None,
     'T_ref: 298.15 K\nH_ref: 12.5\n'),
    ('S_ref bare, block lacks molar entropy',
     {'molar enthalpy': 'kcal/mol', 'temperature': 'K'},
     'T_ref: 298.15\nH_ref: 12.5\nS_ref: 3.25\n'),
    ('Cp value bare, no default heat-capacity unit',
     {'temperature': 'K', 'molar enthalpy': 'kJ/mol'},
     'T_ref: 298.15\nCp_data:\n    - [300, 5.0]\n    - [400, 6.0]\n'
     'range: [298.15, 400]\n'),
    ('T_ref bare, no default temperature unit',
     {'molar enthalpy': 'kJ/mol'},
     'T_ref: 298.15\nH_ref: 12.5\n'),
    ('table temperature bare, no default temperature unit', None,
     'T_ref: 298.15 K\nND_Cp_data:\n    - [300, 5.0]\n    - [400 K, 6.0]\n'
     'range: [298.15 K, 400 K]\n'),
    ('range bound bare, no default temperature unit', None,
     'T_ref: 298.15 K\nND_H_ref: 1.5\nrange: [200, 400 K]\n'),
    ('zero H_ref bare, no units block', None,
     'T_ref: 298.15 K\nH_ref: 0.0\n'),
    ('zero Cp bare, no default unit', None,
     'T_ref: 300 K\nCp_data:\n    - [300 K, 0]\n'),
]
# systematic: a full units block with exactly ONE kind left out, and a bare
# value of exactly that kind (every other kind present and dimensionally
# akin: entropy next to heat capacity, enthalpy next to both)
_FULL = {'molar enthalpy': 'kJ/mol', 'molar entropy': 'J/(mol K)',
         'molar heat capacity': 'cal/(mol K)', 'temperature': 'K'}
_BARE = {
    'molar enthalpy': 'T_ref: 298.15\nH_ref: 12.5\nS_ref: 3.25\n',
    'molar entropy': 'T_ref: 298.15\nH_ref: 12.5\nS_ref: 3.25\n',
    'molar heat capacity': 'T_ref: 298.15\nS_ref: 3.25\nCp_data:\n'
                           '    - [300, 5.0]\n    - [400, 6.0]\n'
                           'range: [298.15, 400]\n',
    'temperature': 'T_ref: 298.15\nH_ref: 12.5\n',
}
for _kind in _FULL:
    for _alt in ('kJ/mol', 'cal/(mol K)'):
        _blk = dict((k, v) for k, v in _FULL.items() if k != _kind)
        if _kind != 'temperature':
            # the other entries written in units of the same family
            _blk = dict((k, (_alt if k != 'temperature' and
                             ('K' in _alt) == ('K' in v) else v))
                        for k, v in _blk.items())
        REJECT.append(('bare %s, block lacks exactly that kind (%s)'
                       % (_kind, _alt), _blk, _BARE[_kind]))


def check_reject(ctx, idx):
    label, block, body = REJECT[idx]
    lines = []
    if block:
        lines.append('units:')
        for k, v in block.items():
            lines.append('    %s: %s' % (k, v))
    lines.append("groups:\n    'C(H)4':\n        'thermochem':")
    lines += ['            ' + ln for ln in body.strip('\n').split('\n')]
    text = '\n'.join(lines) + '\n'
    o = load_text(text)
    ctx.evals()
    case = {'reject': idx, 'label': label}
    if 'ok' in o:
        th = o['ok']['C(H)4']
        ctx.violation('dimensional value without any unit was accepted%s' % (
            ' (zero value)' if 'zero' in label else ''), case,
            {'text': text, 'loaded': repr(getattr(th, 'thermochem', th))})
        return
    ctx.count('rejections_decided')
    ctx.klass('rejected with %s' % o['exc'])
    ctx.nontrivial(['reject', idx])


def snapshot(lib):
    out = []
    for g in sorted(lib, key=str):
        th = lib[g].get('thermochem')
        if th is None:
            out.append((str(g), None))
            continue
        out.append((str(g), repr(th.ND_H_ref), repr(th.ND_S_ref),
                    sorted((repr(float(t)), repr(float(v)))
                           for t, v in (th.ND_Cp_data or {}).items()),
                    repr(th.T_ref), repr(th.get_range())))
    return repr(out)


def check_threads(ctx, key=None, rounds=3):
    """What a file loads as depends on that file only: several files -- each
    with its own default-unit block, one with none and a unit-less
    dimensional value (to be rejected) -- loaded from several threads at
    once give what each gives when loaded alone."""
    from vmon.core import threads as TH
    key = key or 'thr%d_%d' % (ctx.seed, ctx.shard)
    rng = random.Random('c12thr:%s' % key)
    texts = []
    for i in range(6):
        groups = abstract_library(rng)
        block, pres, weight = presentation(rng, 'default', groups)
        texts.append(libfiles.render_library(groups, units=block, pres=pres))
    for idx in rng.sample(range(len(REJECT)), 3):
        label, block, body = REJECT[idx]
        lines = []
        if block:
            lines.append('units:')
            for k, v in block.items():
                lines.append('    %s: %s' % (k, v))
        lines.append("groups:\n    'C(H)4':\n        'thermochem':")
        lines += ['            ' + ln for ln in body.strip('\n').split('\n')]
        texts.append('\n'.join(lines) + '\n')
    with libfiles.TempTree() as tree:
        paths = [libfiles.write_library(tree, 'lib%d.yaml' % i, t)
                 for i, t in enumerate(texts)]

        def make_jobs():
            def job(p):
                return lambda: snapshot(libs.fresh(p))
            return [(i, job(p)) for i, p in enumerate(paths)]
        res = TH.stress(make_jobs, nthreads=4, rounds=rounds, watchdog=300)
    nrej = sum(1 for o in res['baseline'].values() if o[0] == 'exc')
    ctx.count('files_rejected_alone_in_thread_stress', nrej)
    TH.judge(ctx, res, 'library Load', {'what': 'thread stress', 'key': key})


def run_shard(ctx):
    if ctx.shard % 4 == 0:
        check_threads(ctx)
    n = 700 if ctx.tier == 'quick' else 6000
    for i in range(n):
        if ctx.mine(i):
            check_case(ctx, {'key': 'K%d_%d' % (ctx.seed, i)})
    for j in range(len(REJECT)):
        if ctx.mine(j):
            check_reject(ctx, j)


def replay(ctx, case):
    if case.get('what') == 'thread stress':
        return check_threads(ctx, case['key'], rounds=10)
    if 'reject' in case:
        check_reject(ctx, case['reject'])
    else:
        check_case(ctx, {'key': case['key']})


def classify(v):
    return None


LEVEL_TEXT = ('Held on every generated abstract library: each is written in '
              'seven presentations (non-dimensional, default-unit blocks, '
              'explicit prefixed units, per-value mixtures, K/mK/kK) and '
              'loaded through the real loader; stored values must be plain '
              'numbers equal to the abstract data and all presentations must '
              'agree at probe temperatures; unit-less dimensional values must '
              'be rejected. Exploration over data and unit choices.')
