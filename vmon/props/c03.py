"""C03 -- descriptors do not depend on how the molecule is written.

Monitor kind: relational (metamorphic) oracle: every member of a family of
inputs that denote the same molecule must give the same mapping (or the same
exception class).  The PGRADD_VERIF hook is used only to *explain* a
difference (which normalised bonds differ), for the known-findings classifier.
"""
import itertools
import random

from rdkit import Chem

from vmon.core.obs import observe, close
from vmon.core import libs
from vmon.gen import molecules
from vmon.refs import scheme as S

TECHNIQUE = ('runtime monitoring: relational (metamorphic) oracle over '
             'families of equivalent inputs (random SMILES, atom renumberings, '
             'explicit H, Kekule spelling, molecule objects)')
RULE = ('per molecule of the C02 pool and per shipped scheme a family of '
        'equivalent inputs: RDKit random SMILES (quick 8, thorough 40), atom '
        'renumberings written without canonicalisation (all permutations for '
        '<=6 heavy atoms in thorough, 24 sampled in quick), all-explicit-H '
        'and Kekule spellings, and molecule objects (as parsed, with AddHs, '
        'AddHs + random renumbering of ALL atoms incl. H, kekulised). '
        '"Same molecule" = equal RDKit canonical SMILES (checked; others '
        'discarded and counted). Non-trivial = a family with >=4 distinct '
        'inputs all evaluated; distinct by (scheme, canonical SMILES).'
        ' Quick tier: every third acyclic molecule, EVERY molecule with a '
        'ring, plus 90 sampled E/Z alkenes per stereo-bearing scheme '
        '(thorough: all 1302). '
        ' '
        'Round 20: refused molecules with several unassignable atoms in'
        ' several arrangements.')
ASSUMPTIONS = [
    'equivalence of inputs is defined by RDKit\'s own canonical SMILES round '
    'trip',
]
CONFIG = {
    'extra_variants': [('rdkit-new-stereo-perception',
                        [{'RDK_USE_LEGACY_STEREO_PERCEPTION': '0'}])],
    'shards': {'quick': 16, 'thorough': 16},
    'min_nontrivial': {'quick': 1500, 'thorough': 6000},
    'timeout': {'quick': 1200, 'thorough': 14400},
    'required_counters': ['mol_object_inputs', 'renumbered_inputs'],
}
ANCHORS = [
    'pgradd.GroupAdd.Scheme:GroupAdditivityScheme.GetDescriptors',
    'pgradd.GroupAdd.Scheme:GroupAdditivityScheme._AssignDescriptor',
    'pgradd.GroupAdd.Scheme:GroupAdditivityScheme._AssignCenterPattern',
    'pgradd.GroupAdd.Scheme:_aromatization_Benson',
    'pgradd.GroupAdd.Library:GroupLibrary.GetDescriptors',
]


def canon_of(m):
    return Chem.MolToSmiles(m)


def family(rng, smi, tier):
    base = Chem.MolFromSmiles(smi)
    if base is None:
        return None, []
    canon = canon_of(base)
    out = [('canonical SMILES', canon), ('as written', smi)]
    nrand = 8 if tier == 'quick' else 40
    for _ in range(nrand):
        out.append(('random SMILES', Chem.MolToSmiles(base, doRandom=True)))
    n = base.GetNumAtoms()
    if n >= 2:
        if n <= 6 and tier == 'thorough':
            perms = list(itertools.permutations(range(n)))
        else:
            perms = []
            for _ in range(24 if tier == 'quick' else 60):
                p = list(range(n))
                rng.shuffle(p)
                perms.append(tuple(p))
        for p in set(perms):
            rm = Chem.RenumberAtoms(base, list(p))
            out.append(('renumbered SMILES',
                        Chem.MolToSmiles(rm, canonical=False)))
    out.append(('all H explicit', Chem.MolToSmiles(base,
                                                   allHsExplicit=True)))
    try:
        k = Chem.Mol(base)
        Chem.Kekulize(k, clearAromaticFlags=True)
        out.append(('Kekule SMILES', Chem.MolToSmiles(k, kekuleSmiles=True)))
    except Exception:
        pass
    # keep only strings that RDKit reads back as the same molecule
    kept = []
    seen = set()
    dropped = 0
    for lab, s in out:
        if s in seen:
            continue
        seen.add(s)
        m = Chem.MolFromSmiles(s)
        if m is None or canon_of(m) != canon:
            dropped += 1
            continue
        kept.append((lab, s))
    # molecule objects
    mols = [('Mol as parsed', Chem.MolFromSmiles(smi)),
            ('Mol with AddHs', Chem.AddHs(Chem.MolFromSmiles(smi)))]
    mh = Chem.AddHs(Chem.MolFromSmiles(smi))
    for _ in range(3 if tier == 'quick' else 12):
        p = list(range(mh.GetNumAtoms()))
        rng.shuffle(p)
        mols.append(('Mol AddHs renumbered incl. H',
                     Chem.RenumberAtoms(mh, p)))
    # the same molecule as objects that never had RDKit's ring perception
    # run on them (products of CombineMols / of an RWMol rebuild)
    try:
        mols.append(('Mol from CombineMols with an empty Mol',
                     Chem.CombineMols(Chem.MolFromSmiles(smi), Chem.Mol())))
        rw = Chem.RWMol()
        src = Chem.MolFromSmiles(smi)
        for a in src.GetAtoms():
            na = Chem.Atom(a.GetAtomicNum())
            na.SetFormalCharge(a.GetFormalCharge())
            na.SetNumRadicalElectrons(a.GetNumRadicalElectrons())
            na.SetNoImplicit(a.GetNoImplicit())
            na.SetNumExplicitHs(a.GetNumExplicitHs())
            na.SetIsAromatic(a.GetIsAromatic())
            rw.AddAtom(na)
        for b in src.GetBonds():
            rw.AddBond(b.GetBeginAtomIdx(), b.GetEndAtomIdx(),
                       b.GetBondType())
            rw.GetBondWithIdx(rw.GetNumBonds() - 1).SetIsAromatic(
                b.GetIsAromatic())
        rb = rw.GetMol()
        rb.UpdatePropertyCache(strict=False)
        if not any(b.GetStereo() != Chem.BondStereo.STEREONONE
                   for b in src.GetBonds()) and \
                Chem.MolToSmiles(rb) == canon:
            mols.append(('Mol rebuilt atom by atom (no ring info)', rb))
    except Exception:
        pass
    try:
        k = Chem.MolFromSmiles(smi)
        Chem.Kekulize(k, clearAromaticFlags=True)
        mols.append(('Mol kekulised, flags cleared', k))
        k2 = Chem.MolFromSmiles(smi)
        Chem.Kekulize(k2)
        mols.append(('Mol kekulised, flags kept', k2))
    except Exception:
        pass
    return canon, kept + mols, dropped


def outcome(o):
    if 'exc' in o:
        return ('exc', o['exc'])
    d = {str(k): float(v) for k, v in dict(o['ok']).items()
         if abs(float(v)) > 1e-12}
    return ('ok', tuple(sorted((k, round(v, 9)) for k, v in d.items())))


def explain(real, inp_a, inp_b):
    """Why two equivalent inputs were decomposed differently: compare the
    normalised molecules of the two calls up to graph isomorphism-free,
    cheap invariants (multisets of bond types per element pair)."""
    sigs = []
    for inp in (inp_a, inp_b):
        try:
            real._verif_last_mol = None
            try:
                real.GetDescriptors(inp)
            except Exception:
                pass
            m = getattr(real, '_verif_last_mol', None)
            if m is None:
                sigs.append(None)
                continue
            bonds = sorted((tuple(sorted((b.GetBeginAtom().GetSymbol(),
                                          b.GetEndAtom().GetSymbol()))),
                            str(b.GetBondType())) for b in m.GetBonds())
            arom = sum(1 for a in m.GetAtoms() if a.GetIsAromatic())
            sigs.append((bonds, arom))
        except Exception:
            sigs.append(None)
    if None in sigs:
        return 'unknown'
    if sigs[0] == sigs[1]:
        return 'same normalised bond multiset'
    if sigs[0][1] != sigs[1][1] or any(t == 'AROMATIC' for _, t in
                                       sigs[0][0] + sigs[1][0]):
        return 'different aromatic perception of the normalised molecule'
    return 'different Kekule structure of the normalised molecule'


def own_normalisation_consistent(libname, inputs):
    """-> (consistent, ring_only).
    consistent: for each input the real mapping equals the reference
    interpreter's decomposition of the normalised molecule of THAT call.
    ring_only: the normalised molecules of the two calls are the same
    labelled graph except for how ring bonds are perceived (single / double /
    aromatic) and which ring carbons carry the aromatic flag."""
    from vmon.props import c02
    from vmon.refs import ring as R
    import networkx as nx
    from networkx.algorithms.isomorphism import categorical_node_match, \
        categorical_edge_match
    real, ref = c02.get_scheme(libname)
    graphs = []
    isolated = []
    try:
        for inp in inputs:
            real._verif_last_mol = None
            got = dict(real.GetDescriptors(inp))
            hm = real._verif_last_mol
            if hm is None:
                return False, None
            want, _, _ = ref.decompose(hm, R.Facts(hm))
            keys = set(got) | set(want)
            if any(abs(float(got.get(k, 0)) - float(want.get(k, 0))) > 1e-12
                   for k in keys):
                return False, None
            g = nx.Graph()
            for a in hm.GetAtoms():
                g.add_node(a.GetIdx(), lab=(a.GetAtomicNum(),
                                            a.GetFormalCharge(),
                                            a.GetNumRadicalElectrons()))
            for b in hm.GetBonds():
                t = str(b.GetBondType())
                if b.IsInRing() and t in ('SINGLE', 'DOUBLE', 'AROMATIC'):
                    t = 'ring-sda'
                g.add_edge(b.GetBeginAtomIdx(), b.GetEndAtomIdx(), lab=t)
            graphs.append(g)
            # isolated rings (sharing no atom with another ring) have ONE
            # normal form: their perception must not differ between spellings
            rings = [set(r) for r in hm.GetRingInfo().AtomRings()]
            iso = []
            for k, r in enumerate(rings):
                if all(not (r & o) for j, o in enumerate(rings) if j != k):
                    rl = list(hm.GetRingInfo().AtomRings()[k])
                    iso.append((len(rl), tuple(sorted(
                        str(hm.GetBondBetweenAtoms(
                            rl[i], rl[(i + 1) % len(rl)]).GetBondType())
                        for i in range(len(rl))))))
            isolated.append(sorted(iso))
        if isolated[0] != isolated[1]:
            return True, False
        ring_only = nx.is_isomorphic(
            graphs[0], graphs[1],
            node_match=categorical_node_match('lab', None),
            edge_match=categorical_edge_match('lab', None))
        return True, bool(ring_only)
    except Exception:
        return False, None


def fused_aromatic(smi):
    m = Chem.MolFromSmiles(smi)
    rings = [set(r) for r in m.GetRingInfo().AtomRings()
             if all(m.GetAtomWithIdx(i).GetIsAromatic() for i in r)]
    return any(len(rings[a] & rings[b]) >= 2 for a in range(len(rings))
               for b in range(a + 1, len(rings)))


def check_case(ctx, case):
    libname, smi = case['lib'], case['smiles']
    lib = libs.get(libname)
    real = lib.scheme
    rng = random.Random('c03:%s:%s:%s' % (ctx.seed, libname, smi))
    canon, fam, dropped = family(rng, smi, ctx.tier)
    if canon is None:
        ctx.skip('SMILES not parseable')
        return
    if dropped:
        ctx.skip('variant not read back as the same molecule', dropped)
    results = {}
    for lab, inp in fam:
        o = observe(lib.GetDescriptors, inp)
        ctx.evals()
        if isinstance(inp, Chem.Mol):
            ctx.count('mol_object_inputs')
        elif lab == 'renumbered SMILES':
            ctx.count('renumbered_inputs')
        oc = outcome(o)
        results.setdefault(oc, []).append((lab, inp))
    if len(results) > 1:
        ranked = sorted(results.items(), key=lambda kv: -len(kv[1]))
        major, minor = ranked[0], ranked[1]
        why = explain(real, major[1][0][1], minor[1][0][1])
        labs_minor = sorted(set(l for l, _ in minor[1]))
        only_mol = all(l.startswith('Mol') for oc, lst in ranked[1:]
                       for l, _ in lst)
        sig = 'equivalent inputs give different %s' % (
            'failures / results' if 'exc' in (major[0][0], minor[0][0])
            else 'descriptors')
        if only_mol:
            sig += ' [only molecule-object inputs deviate: %s]' % (
                minor[0][1] if minor[0][0] == 'exc' else 'mapping')
        sig += ' (%s%s)' % (why, '; fused aromatic rings'
                            if fused_aromatic(smi) else '')

        consistent = None
        ring_only = None
        if 'exc' not in (major[0][0], minor[0][0]):
            consistent, ring_only = own_normalisation_consistent(
                libname, [major[1][0][1], minor[1][0][1]])

        def show(inp):
            return inp if isinstance(inp, str) else 'Mol(%s)' % \
                Chem.MolToSmiles(inp, canonical=False)
        ctx.violation(sig, case, {
            'canonical': canon, 'explanation': why,
            'fused_aromatic': fused_aromatic(smi),
            'each_variant_is_the_declared_decomposition_of_its_own_'
            'normalised_molecule': consistent,
            'normalised_molecules_differ_only_in_ring_bond_perception':
                ring_only,
            'outcomes': [{'outcome': (oc[1] if oc[0] == 'exc' else
                                      dict(oc[1])),
                          'n_inputs': len(lst),
                          'example': [lst[0][0], show(lst[0][1])]}
                         for oc, lst in ranked[:4]]})
        return
    (oc, lst), = results.items()
    if len(lst) >= 4:
        ctx.nontrivial([libname, canon])
        ctx.klass('family agrees: %s' % ('same failure' if oc[0] == 'exc'
                                         else 'same descriptors'))
        if oc[0] == 'ok' and case.get('estimates'):
            e1 = observe(lambda: lib.Estimate(
                lib.GetDescriptors(lst[0][1]), 'thermochem').get_HoRT(500.0))
            e2 = observe(lambda: lib.Estimate(
                lib.GetDescriptors(lst[-1][1]), 'thermochem').get_HoRT(500.0))
            if ('ok' in e1) != ('ok' in e2) or (
                    'ok' in e1 and not close(e1['ok'], e2['ok'], rel=1e-12)):
                ctx.violation('equal descriptors but different estimates',
                              case, {'a': repr(e1), 'b': repr(e2)})
            ctx.count('estimate_pairs')
        if ctx.rng.random() < 0.01:
            ctx.sample({'lib': libname, 'canonical': canon,
                        'n_inputs': len(lst),
                        'inputs': [i if isinstance(i, str) else 'Mol object'
                                   for _, i in lst[:6]]})


def run_shard(ctx):
    i = 0
    q = ctx.tier == 'quick'
    for name in libs.LIBS:
        metal = libs.METAL.get(name, 'Pt')
        pl = molecules.pool(ctx.seed, n_random=30 if q else 300,
                            n_ads=20 if q else 200, metal=metal,
                            nitrogen=name in ('BensonGA', 'PPY'),
                            max_heavy=12 if q else 14)
        if q:
            # the quick tier takes every third acyclic molecule but EVERY
            # molecule with a ring (ring perception walks the ring in atom
            # order: the class where spelling dependence lives)
            pl = [s for k, s in enumerate(pl)
                  if k % 3 == ctx.seed % 3 or any(c.isdigit() for c in s)]
        for k, smi in enumerate(pl):
            if ctx.mine(i):
                check_case(ctx, {'lib': name, 'smiles': smi,
                                 'estimates': k % 10 == 0})
            i += 1
        # molecules every scheme refuses, with SEVERAL unassignable atoms --
        # bonded to each other, apart, at the start and at the end of the
        # atom order: "the same failure" whichever atom is met first
        for smi in ('CSSCCS', 'SSCCS', 'NNCCN', 'NCCNN', 'NNCCNN',
                    'C[Si]([Si])CC[Si]', 'FC(F)(F)CCF', 'ClSCCCl', 'FSSF',
                    'CS(C)SCCCl', 'ClCCSSC', 'BrCC(Br)SS', 'PCCPP',
                    'C[Se][Se]CC[Se]C'):
            if ctx.mine(i):
                ctx.count('refused_molecules_with_several_unassignable_atoms')
                check_case(ctx, {'lib': name, 'smiles': smi,
                                 'estimates': False})
            i += 1
        if name in ('BensonGA', 'PPY'):
            # scale: ordinary but LARGE molecules (more than 417 heavy atoms:
            # 24 non-unique embeddings per sp3 carbon reach the library's
            # 10000-match budget there) with position-specific corrections
            for smi in ('CC1CCC(' + 'OCC' * 140 + 'OC)CC1',
                        'Cc1ccccc1C' + 'OCC' * 140 + 'OC(C)C(C)(C)C',
                        'CC(C)C(C)(C)' + 'COC' * 141 + 'C1CC1'):
                if ctx.mine(i):
                    ctx.count('molecules_beyond_417_heavy_atoms')
                    check_case(ctx, {'lib': name, 'smiles': smi,
                                     'estimates': False})
                i += 1
            # the two schemes with cis/trans corrections: every E/Z alkene
            # over a substituent alphabet (seeded sample on the quick tier)
            st = molecules.stereo_alkenes()
            if q:
                st = ctx.sub_rng('stereo', name).sample(st, 90)
            for smi in st:
                if ctx.mine(i):
                    ctx.count('stereo_alkene_families')
                    check_case(ctx, {'lib': name, 'smiles': smi,
                                     'estimates': False})
                i += 1


def replay(ctx, case):
    check_case(ctx, case)


def classify(v):
    """Known finding (DESIGN section 3, #26, widened after the thorough tier
    found a bridged bicyclic instance): the NORMALISED molecule depends on
    the spelling -- which Kekule structure RDKit picks and which rings its
    SSSR reports decide which C6 rings the ring-by-ring Benson perception
    makes aromatic.  An instance must (a) differ in descriptors, not in
    failure, (b) each variant must be exactly the declared decomposition of
    its own normalised molecule (reference interpreter on the hook molecule),
    (c) the two normalised molecules must be the same labelled graph except
    for the perception of ring bonds, and (d) every ISOLATED ring (sharing no
    atom with another ring; it has one normal form) must be perceived alike
    in both -- so any other cause of a difference is still reported."""
    d = v.get('detail', {})
    if d.get('each_variant_is_the_declared_decomposition_of_its_own_'
             'normalised_molecule') is True and d.get(
            'normalised_molecules_differ_only_in_ring_bond_perception') \
            is True:
        return 'kekule-form-dependent-perception'
    return None


LEVEL_TEXT = ('Held on every executed family: for each pool molecule and '
              'shipped scheme, 15-60 equivalent inputs (random / renumbered / '
              'explicit-H / Kekule SMILES and molecule objects incl. full '
              'renumberings with H) must give one outcome; thorough '
              'enumerates all atom permutations for <=6 heavy atoms. '
              'Exploration over molecules and spellings.')
