"""C14 -- every shipped database loads, is self-consistent and relocatable.

Monitor kind: exhaustive audit.  Content digests of three loading routes
(name / explicit path / relocated copy in a fresh process), sys.addaudithook
'open' events to see which files were really read, outcome-class oracle for
every (group, property, temperature) against the harness's own parse of the
data files, structural checks of patterns, remaps and uncertainty blocks.
"""
import collections
import json
import math
import os
import re
import shutil
import subprocess
import sys
import tempfile

import numpy as np

from vmon.core.obs import observe, is_plain_number
from vmon.core import libs, digests

TECHNIQUE = ('runtime monitoring (exhaustive audit): content digests of three '
             'loading routes incl. a relocated copy in a fresh process, audit '
             'hook on file opens, outcome-class oracle for every group x '
             'property x temperature against the harness\'s own parse of the '
             'YAML files, structural checks of remaps / patterns / UQ blocks')
RULE = ('all 9 bundled libraries x {by name, by explicit path, by name from a '
        'relocated copy under pgradd_DATA_DIR in a fresh process}; every '
        'group/descriptor x {Cp,H,S,G} x {range ends, T_ref, knots, '
        'midpoints}; every pattern and descriptor connectivity; every remap; '
        'every uncertainty block. Exhaustive. Non-trivial = a (library, '
        'group) or (library, pattern/remap/UQ item) actually evaluated; '
        'distinct by item.'
        ' '
        'Rounds 17-19: relocated trees whose files are symbolic links'
        ' (content-addressed store; de-duplicated), loaded by name and by'
        ' path; loads in a child process whose working directory was'
        ' removed; the nine databases loaded from three threads at once.')
ASSUMPTIONS = [
    'the data-directory cache is per process, hence the relocated load runs '
    'in a fresh subprocess',
    'PSD test: eigvalsh >= -1e-9*lambda_max; symmetry to 1e-9 relative',
]
CONFIG = {
    'shards': {'quick': 9, 'thorough': 9},
    'min_nontrivial': {'quick': 1500, 'thorough': 1500},
    'exhaustive': True,
    'required_counters': ['relocated_loads', 'patterns_read',
                          'uq_blocks_checked', 'remaps_checked'],
}
ANCHORS = [
    'pgradd.GroupAdd.DataDir:get_data_dir',
    'pgradd.GroupAdd.Library:GroupLibrary.Load',
    'pgradd.GroupAdd.Library:GroupLibrary._do_load',
    'pgradd.GroupAdd.Scheme:GroupAdditivityScheme.Load',
]
PROPS = [('get_CpoR', ('Cp',)), ('get_HoRT', ('H',)), ('get_SoR', ('S',)),
         ('get_GoRT', ('H', 'S'))]

_GROUP_RE = re.compile(r'\(([^()]*)\)(\d*)')
_GROUP_FULL = re.compile(r'^[^()]*(\([^()]*\)\d*)+$')


def canon_name(text):
    """The harness's own canonicaliser of group names in data files."""
    if not _GROUP_FULL.match(text):
        return text          # a descriptor name, not group syntax
    centre = text[:text.index('(')]
    cnt = collections.Counter()
    for name, n in _GROUP_RE.findall(text):
        cnt[name] += int(n) if n else 1
    out = centre
    for k in sorted(cnt):
        out += '(%s)' % k + (str(cnt[k]) if cnt[k] > 1 else '')
    return out


def file_inventory(path, acc=None, files=None):
    """Walk library.yaml and its includes with the harness's own YAML read:
    {canonical name: set of data kinds present}."""
    import yaml
    acc = {} if acc is None else acc
    files = [] if files is None else files
    files.append(os.path.abspath(path))
    with open(path) as f:
        d = yaml.safe_load(f) or {}
    for section, canon in (('groups', True), ('other_descriptors', False)):
        for name, sets in (d.get(section) or {}).items():
            key = canon_name(str(name)) if canon else str(name)
            have = acc.setdefault(key, set())
            th = (sets or {}).get('thermochem') or {}
            if th.get('H_ref') is not None or th.get('ND_H_ref') is not None:
                have.add('H')
            if th.get('S_ref') is not None or th.get('ND_S_ref') is not None:
                have.add('S')
            if th.get('Cp_data') or th.get('ND_Cp_data'):
                have.add('Cp')
            if 'thermochem' in (sets or {}):
                have.add('set')
    for inc in d.get('include') or []:
        file_inventory(os.path.join(os.path.dirname(path), inc), acc, files)
    return acc, files


def relink(dst, store, layout):
    """Turn the plain copy under dst into a tree of the same bytes whose
    files are symbolic links: 'cas' -- every file is a link into an object
    store elsewhere, named by content hash (DVC / git-annex style); 'dedup'
    -- every later duplicate is a relative link to the first file with the
    same bytes, wherever that is (rdfind / jdupes style).  Returns the
    number of links made."""
    import hashlib
    n = 0
    first = {}
    for dp, dns, fns in sorted(os.walk(dst)):
        dns.sort()
        for fn in sorted(fns):
            p = os.path.join(dp, fn)
            if os.path.islink(p) or not os.path.isfile(p):
                continue
            with open(p, 'rb') as f:
                h = hashlib.sha1(f.read()).hexdigest()
            if layout == 'cas':
                os.makedirs(store, exist_ok=True)
                obj = os.path.join(store, h)
                if not os.path.exists(obj):
                    shutil.move(p, obj)
                else:
                    os.unlink(p)
                os.symlink(obj, p)
                n += 1
            elif h in first:
                os.unlink(p)
                os.symlink(os.path.relpath(first[h], dp), p)
                n += 1
            else:
                first[h] = p
    return n


def relocated_report(names, c_locale=False, late=False, layout=None,
                     cwd_deleted=False):
    """Load by name from a relocated copy in a fresh interpreter (optionally
    one whose default text encoding is ASCII: the C locale, UTF-8 mode and
    locale coercion off -- what a data file with a stray non-ASCII character
    meets on such a system)."""
    tmp = tempfile.mkdtemp(prefix='vmon_reloc_')
    try:
        dst = os.path.join(tmp, 'elsewhere', 'data_copy')
        shutil.copytree(libs.data_dir(), dst)
        env = dict(os.environ)
        env['pgradd_DATA_DIR'] = dst
        if layout:
            nlinks = relink(dst, os.path.join(tmp, 'objects'), layout)
            env['VMON_ALSO_BY_PATH'] = '1'
        if late:
            env.pop('pgradd_DATA_DIR')
            env['VMON_LATE_DATA_DIR'] = dst
        if c_locale:
            env.update({'LC_ALL': 'C', 'LANG': 'C', 'PYTHONUTF8': '0',
                        'PYTHONCOERCECLOCALE': '0'})
            env.pop('PYTHONIOENCODING', None)
        root_ = os.path.dirname(os.path.dirname(os.path.dirname(
            os.path.abspath(__file__))))
        run_cwd = root_
        if cwd_deleted:
            # the child removes its own working directory before it loads
            # anything (a job whose scratch directory was cleaned up)
            run_cwd = os.path.join(tmp, 'gone')
            os.makedirs(run_cwd)
            env['VMON_DELETE_CWD'] = '1'
            env['VMON_ALSO_BY_PATH'] = '1'
            env['PYTHONPATH'] = root_ + os.pathsep + env.get('PYTHONPATH', '')
        p = subprocess.run(
            [sys.executable, '-X', 'faulthandler', '-W', 'ignore', '-m',
             'vmon.core.reloc_child'] + list(names),
            cwd=run_cwd, env=env, capture_output=True, text=True,
            timeout=600)
        if '@@REPORT@@' not in p.stdout:
            return None, dst, p.stderr[-1500:]
        rep = json.loads(p.stdout.split('@@REPORT@@')[1].strip())
        if layout:
            rep['links'] = nlinks
        return rep, dst, ''
    finally:
        shutil.rmtree(tmp, ignore_errors=True)


def check_locations(ctx, name):
    case = {'lib': name, 'part': 'locations'}
    a = observe(libs.fresh, name)
    path = os.path.join(libs.data_dir(), name, 'library.yaml')
    b = observe(libs.fresh, path)
    ctx.evals(2)
    for how, o in (('by name', a), ('by explicit path', b)):
        if 'exc' in o:
            ctx.violation('library does not load %s (%s)' % (how, o['exc']),
                          case, {'msg': o['msg']})
            return
    da = digests.library_digest(a['ok'])
    db = digests.library_digest(b['ok'])
    if da != db:
        ctx.violation('contents differ: by name vs by explicit path', case,
                      {'by_name': da, 'by_path': db})
        return
    # once more by name in the same process, and by a RELATIVE path
    a2 = observe(libs.fresh, name)
    cwd = os.getcwd()
    try:
        os.chdir(libs.data_dir())
        b2 = observe(libs.fresh, os.path.join(name, 'library.yaml'))
        os.chdir(os.path.join(libs.data_dir(), name))
        b3 = observe(libs.fresh, os.path.join('.', 'library.yaml'))
    finally:
        os.chdir(cwd)
    ctx.evals(3)
    for how, o in (('by name, second time in the process', a2),
                   ('by a path relative to the data directory', b2),
                   ('by ./library.yaml from inside its directory', b3)):
        if 'exc' in o:
            ctx.violation('library does not load %s (%s)' % (how, o['exc']),
                          case, {'msg': o['msg']})
            return
        if digests.library_digest(o['ok']) != da:
            ctx.violation('contents differ: by name vs %s' % how, case, {})
            return
    ctx.count('extra_loading_routes_compared', 3)
    # the SAME relative spelling from inside another database's directory,
    # in this very process: must be that other database
    other = libs.LIBS[(libs.LIBS.index(name) + 1) % len(libs.LIBS)]
    try:
        os.chdir(os.path.join(libs.data_dir(), other))
        c3 = observe(libs.fresh, os.path.join('.', 'library.yaml'))
    finally:
        os.chdir(cwd)
    ctx.evals()
    ref_other = observe(libs.fresh, other)
    if 'exc' in c3 or 'exc' in ref_other or digests.library_digest(
            c3['ok']) != digests.library_digest(ref_other['ok']) or \
            digests.digest_of(digests.scheme_state(c3['ok'].scheme)) != \
            digests.digest_of(digests.scheme_state(ref_other['ok'].scheme)):
        ctx.violation('./library.yaml loaded from inside another database\'s '
                      'directory (same spelling, same process) is not that '
                      'database', dict(case, other=other),
                      {'outcome': c3.get('exc', 'loaded')})
        return
    ctx.count('same_relative_spelling_other_directory')
    rep, dst, err = relocated_report([name])
    ctx.evals()
    if rep is None:
        ctx.violation('relocated load crashed', case, {'stderr': err})
        return
    dc = rep['digests'][name]
    if dc != da:
        ctx.violation('relocated copy loads different contents / fails',
                      case, {'by_name': da, 'relocated': dc})
        return
    rep_c, _, err_c = relocated_report([name], c_locale=True)
    ctx.evals()
    if rep_c is None or rep_c['digests'].get(name) != da:
        ctx.violation('relocated copy does not load (or loads other '
                      'contents) in a process whose default text encoding '
                      'is ASCII (C locale)', case,
                      {'stderr': (err_c or '')[-600:],
                       'digest': None if rep_c is None
                       else rep_c['digests'].get(name)})
        return
    ctx.count('relocated_loads_under_the_C_locale')
    rep_l, dst_l, err_l = relocated_report([name], late=True)
    ctx.evals()
    inside_l = [] if rep_l is None else [
        f for f in rep_l['opened'] if os.path.realpath(f).startswith(
            os.path.realpath(libs.data_dir()) + os.sep)]
    if rep_l is None or rep_l['digests'].get(name) != da or inside_l:
        ctx.violation('override set after the package was imported (before '
                      'the first load) is not honoured', case,
                      {'stderr': (err_l or '')[-400:],
                       'opened_in_package_dir': inside_l[:4]})
        return
    ctx.count('relocated_loads_with_late_override')
    # a process whose working directory no longer exists
    rep_g, _, err_g = relocated_report([name], cwd_deleted=True)
    ctx.evals()
    if rep_g is None or rep_g['digests'].get(name) != da or \
            rep_g.get('digests_by_path', {}).get(name) != da or \
            not rep_g.get('cwd_gone'):
        ctx.violation('the database does not load (by name / by absolute '
                      'path) in a process whose working directory has been '
                      'removed', case,
                      {'stderr': (err_g or '')[-400:],
                       'by_name': None if rep_g is None else
                       rep_g['digests'].get(name),
                       'by_path': None if rep_g is None else
                       rep_g.get('digests_by_path', {}).get(name)})
        return
    ctx.count('loads_in_a_process_without_working_directory')
    # relocated trees of the same bytes whose files are symbolic links
    for layout in ('cas', 'dedup'):
        rep_s, _, err_s = relocated_report([name], layout=layout)
        ctx.evals()
        bad = None
        if rep_s is None:
            bad = {'stderr': (err_s or '')[-400:]}
        elif rep_s['digests'].get(name) != da:
            bad = {'by_name': rep_s['digests'].get(name)}
        elif rep_s.get('digests_by_path', {}).get(name) != da:
            bad = {'by_path': rep_s.get('digests_by_path', {}).get(name)}
        elif rep_s.get('scheme_digests', {}).get(name) != \
                digests.digest_of(digests.scheme_state(a['ok'].scheme)):
            bad = {'scheme': rep_s.get('scheme_digests', {}).get(name)}
        if bad is not None:
            ctx.violation('relocated tree whose files are symbolic links '
                          '(%s) does not load as the same database' % (
                              'into a content-addressed store'
                              if layout == 'cas' else
                              'from duplicates to their first copy'),
                          dict(case, layout=layout), bad)
            return
        ctx.count('relocated_loads_from_symlinked_trees')
        ctx.maximum('symbolic_links_in_a_relocated_tree', rep_s['links'])
    # the scheme alone, loaded by name: here, by path, and relocated
    from pgradd.GroupAdd.Scheme import GroupAdditivityScheme
    s1 = observe(GroupAdditivityScheme.Load, name)
    s2 = observe(GroupAdditivityScheme.Load,
                 os.path.join(libs.data_dir(), name, 'scheme.yaml'))
    ctx.evals(2)
    if 'exc' in s1 or 'exc' in s2:
        ctx.violation('scheme does not load by name / by path (%s)' % (
            s1.get('exc') or s2.get('exc')), case, {})
        return
    sd = [digests.digest_of(digests.scheme_state(x['ok'])) for x in (s1, s2)]
    sd.append(digests.digest_of(digests.scheme_state(a['ok'].scheme)))
    sd.append(rep.get('scheme_digests', {}).get(name))
    if len(set(sd)) != 1:
        ctx.violation('scheme contents differ between loading routes', case,
                      {'by_name': sd[0], 'by_path': sd[1],
                       'of_library': sd[2], 'relocated_by_name': sd[3]})
        return
    ctx.count('scheme_loading_routes_compared')
    pkg = os.path.realpath(libs.data_dir())
    inside = [f for f in rep['opened']
              if os.path.realpath(f).startswith(pkg + os.sep)]
    under = [f for f in rep['opened'] if f.startswith(dst + os.sep)]
    if inside:
        ctx.violation('data file opened from the package directory despite '
                      'the override', case, {'files': inside[:5]})
        return
    _, files = file_inventory(path)
    want = set(os.path.relpath(f, libs.data_dir()) for f in files)
    want.add(os.path.join(name, 'scheme.yaml'))
    got = set(os.path.relpath(f, dst) for f in under)
    if not want <= got:
        ctx.violation('relocated load did not read every data file from the '
                      'relocated root', case,
                      {'missing': sorted(want - got)[:8]})
        return
    ctx.count('relocated_loads')
    ctx.nontrivial(['loc', name])
    ctx.sample({'lib': name, 'digest': da,
                'files_opened_under_relocated_root': len(under),
                'files_opened_under_package_dir': 0})


def temperatures(c, dense):
    ts = sorted(float(t) for t in (c.ND_Cp_data or {}))
    out = [float(c.T_ref)] + ts + [(a + b) / 2 for a, b in zip(ts, ts[1:])]
    r = c.get_range()
    if r is not None:
        out += [float(r[0]), float(r[1])]
        if dense:
            out += list(np.linspace(float(r[0]), float(r[1]), 41))
        out = [t for t in out if r[0] <= t <= r[1]]
    return sorted(set(out))


def check_groups(ctx, name, dense):
    lib = libs.get(name)
    inv, _ = file_inventory(os.path.join(libs.data_dir(), name,
                                         'library.yaml'))
    loaded = set(str(g) for g in lib)
    if loaded != set(inv):
        ctx.violation('loaded keys differ from the keys in the data files',
                      {'lib': name, 'part': 'keys'},
                      {'only_loaded': sorted(loaded - set(inv))[:5],
                       'only_in_files': sorted(set(inv) - loaded)[:5]})
        return
    for g in lib:
        gname = str(g)
        have = inv[gname]
        ent = lib[g]
        case = {'lib': name, 'group': gname}
        if ('thermochem' in ent) != ('set' in have):
            ctx.violation('presence of the property set differs from the '
                          'file', case, {'file_has': sorted(have)})
            continue
        if 'thermochem' not in ent:
            ctx.skip('entry without a thermochem set')
            continue
        c = ent['thermochem']
        ok = True
        for T in temperatures(c, dense):
            for meth, needs in PROPS:
                o = observe(getattr(c, meth), T)
                ctx.evals()
                absent = [n for n in needs if n not in have]
                if 'IncompleteDataWarning' in o['warn'] and 'Cp' in have:
                    ctx.violation('incomplete-data warning although the file '
                                  'gives Cp data', case, {'T': T, 'm': meth})
                    ok = False
                if absent:
                    if 'exc' in o and o['exc'] == 'IncompleteDataError':
                        continue
                    ctx.violation('%s for a datum absent from the file did '
                                  'not raise IncompleteDataError' % meth,
                                  case, {'T': T, 'absent': absent,
                                         'got': repr(o.get('ok',
                                                           o.get('exc')))})
                    ok = False
                    continue
                if 'exc' in o:
                    ctx.violation('%s raised %s although the file gives the '
                                  'data' % (meth, o['exc']), case,
                                  {'T': T, 'msg': o['msg']})
                    ok = False
                    continue
                v = o['ok']
                if not is_plain_number(v) or not math.isfinite(float(v)):
                    ctx.violation('%s is not a finite plain number' % meth,
                                  case, {'T': T, 'value': repr(v)[:120]})
                    ok = False
        if ok:
            ctx.nontrivial(['group', name, gname])
    ctx.klass('groups of %s' % name)


def check_scheme(ctx, name):
    from pgradd.RINGParser import Read
    d = libs.scheme_yaml(name)
    case = {'lib': name, 'part': 'scheme'}
    for section in ('patterns', 'other_descriptors'):
        for i, p in enumerate(d.get(section) or []):
            o = observe(Read, p['connectivity'])
            ctx.evals()
            label = p.get('center_name') or p.get('name')
            if 'exc' in o:
                ctx.violation('shipped %s connectivity is not readable (%s)'
                              % (section, o['exc']),
                              dict(case, index=i, label=label),
                              {'msg': o['msg'], 'text': p['connectivity']})
                continue
            if type(o['ok']).__name__ != 'MolQuery':
                ctx.violation('shipped pattern does not read as a fragment',
                              dict(case, index=i, label=label), {})
                continue
            try:
                from vmon.refs import ring as R
                R.parse(p['connectivity'])
                ctx.count('patterns_read_by_reference_front_end')
            except ImportError:
                pass
            except Exception as exc:
                ctx.violation('reference RING front end rejects a shipped '
                              'pattern (oracle defect or pattern defect)',
                              dict(case, index=i, label=label),
                              {'exc': repr(exc), 'text': p['connectivity']})
                continue
            ctx.count('patterns_read')
            ctx.nontrivial(['pattern', name, section, i])
    remaps = d.get('remaps') or {}
    sources = set(canon_name(k) for k in remaps)
    for k, v in remaps.items():
        c = dict(case, remap=k)
        ctx.evals()
        good = isinstance(v, list) and len(v) >= 1 and all(
            isinstance(x, list) and len(x) == 2 and
            isinstance(x[0], (int, float)) and not isinstance(x[0], bool) and
            isinstance(x[1], str) for x in v)
        if not good:
            ctx.violation('remap value is not a list of [number, name] pairs',
                          c, {'value': repr(v)[:200]})
            continue
        chain = [x[1] for x in v if canon_name(x[1]) in sources or
                 x[1] in remaps]
        if chain:
            ctx.violation('remap target is itself a remap source (chain)', c,
                          {'targets': chain})
            continue
        ctx.count('remaps_checked')
        ctx.nontrivial(['remap', name, k])
    if not remaps:
        ctx.count('remaps_checked', 0)
    # molecule-level prefixes would break additivity (C04 relies on this scan)
    for section in ('patterns', 'other_descriptors'):
        for i, p in enumerate(d.get(section) or []):
            head = p['connectivity'].split('fragment')[0].strip()
            if head:
                ctx.notes.setdefault('molecule_level_prefixes', []).append(
                    [name, section, i, head])


def check_uq(ctx, name):
    lib = libs.get(name)
    uq = getattr(lib, 'uq_contents', None)
    path = os.path.join(libs.data_dir(), name, 'uq.yaml')
    case = {'lib': name, 'part': 'uq'}
    if not os.path.exists(path):
        if uq:
            ctx.violation('uncertainty data without a uq.yaml', case, {})
        return
    if not uq:
        ctx.skip('uq.yaml present but not included by library.yaml')
        return
    ctx.evals()
    basis = [str(d) for d in uq['descriptors']]
    M = np.asarray(uq['mat'], dtype=float)
    bad = None
    if M.ndim != 2 or M.shape[0] != M.shape[1]:
        bad = 'matrix is not square: %r' % (M.shape,)
    elif M.shape[0] != len(basis):
        bad = 'matrix size %d != basis size %d' % (M.shape[0], len(basis))
    elif len(set(basis)) != len(basis):
        bad = 'basis lists a descriptor twice'
    else:
        scale = np.abs(M).max()
        if np.abs(M - M.T).max() > 1e-9 * scale:
            bad = 'matrix is not symmetric'
        else:
            ev = np.linalg.eigvalsh((M + M.T) / 2)
            if ev.min() < -1e-9 * ev.max():
                bad = 'matrix is not positive semi-definite (min eig %g)' \
                    % ev.min()
            ctx.maximum('min_eigenvalue_x1e6_' + name,
                        float(ev.min()) * 1e6)
    if bad:
        ctx.violation('uncertainty block: ' + bad.split(':')[0], case,
                      {'why': bad})
        return
    for b in basis:
        if 'thermochem' not in lib[b]:
            ctx.violation('uncertainty basis names an entry without data',
                          case, {'descriptor': b})
            return
    dof = uq.get('dof')
    if isinstance(dof, bool) or not isinstance(dof, int) or dof <= 0:
        ctx.violation('DOF is not a positive integer', case,
                      {'dof': repr(dof)})
        return
    rm = uq.get('RMSE')
    if rm is None or 'thermochem' not in rm:
        ctx.violation('RMSE entry missing', case, {})
        return
    c = rm['thermochem']
    for T in temperatures(c, False):
        for meth in ('get_CpoR', 'get_HoRT', 'get_SoR'):
            o = observe(getattr(c, meth), T)
            if 'exc' in o or not is_plain_number(o['ok']) or \
                    not math.isfinite(float(o['ok'])):
                ctx.violation('RMSE correlation does not evaluate', case,
                              {'T': T, 'm': meth,
                               'got': repr(o.get('ok', o.get('exc')))})
                return
    ctx.count('uq_blocks_checked')
    ctx.nontrivial(['uq', name])


def check_threads(ctx, rounds=1):
    """What a shipped database loads as depends on its files only: all nine
    loaded by name from three threads at once give the content a lone load
    gives (a digest over every group's data, the scheme and the UQ block)."""
    from vmon.core import threads as TH
    from vmon.core import digests

    def make_jobs():
        return [(name, lambda name=name: digests.library_digest(
            libs.fresh(name))) for name in libs.LIBS]
    res = TH.stress(make_jobs, nthreads=3, rounds=rounds, watchdog=600)
    TH.judge(ctx, res, 'loading the shipped databases',
             {'what': 'thread stress', 'lib': 'all'})


def run_shard(ctx):
    dense = ctx.tier == 'thorough'
    if ctx.shard == (ctx.seed % len(libs.LIBS)):
        check_threads(ctx)
    for i, name in enumerate(libs.LIBS):
        if not ctx.mine(i):
            continue
        check_locations(ctx, name)
        check_groups(ctx, name, dense)
        check_scheme(ctx, name)
        check_uq(ctx, name)
        if name not in libs.UQ_LIBS:
            # so that the required counters are meaningful per shard merge
            pass


def replay(ctx, case):
    if case.get('what') == 'thread stress':
        return check_threads(ctx, rounds=6)
    name = case['lib']
    if case.get('part') == 'locations':
        check_locations(ctx, name)
    elif case.get('part') == 'uq':
        check_uq(ctx, name)
    elif case.get('part') == 'scheme':
        check_scheme(ctx, name)
    else:
        check_groups(ctx, name, False)


def classify(v):
    return None


LEVEL_TEXT = ('Exhaustive audit of the nine bundled libraries: three loading '
              'routes with equal content digests (relocated copy in a fresh '
              'process, file opens observed through an audit hook), every '
              'group x property x temperature classified against the '
              'harness\'s own parse of the data files, every pattern read, '
              'every remap and uncertainty block checked structurally.')
