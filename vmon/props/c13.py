"""C13 -- merging library files is a conflict-checked, order-free union.

Monitor kind: reference model (dict union with conflict detection) beside
GroupLibrary.Load of generated file trees (all include orders and nestings)
and beside histories of ThermochemIncomplete.update / GroupLibrary.Update
calls; state snapshots before/after every call (atomicity, idempotence,
no aliasing).
"""
import itertools
import math
import os
import random

from vmon.core.obs import observe, is_plain_number
from vmon.core import libs
from vmon.gen import libfiles

TECHNIQUE = ('runtime monitoring: reference-model oracle (union with conflict '
             'detection) over generated include trees in all orders/nestings '
             'and over update-call histories, with field snapshots before and '
             'after every call')
RULE = ('one or two groups whose data (H, S, 1-4 Cp points, range) are split '
        'over 1-4 files in random ways incl. duplicated identical values; ALL '
        'permutations of include order x nesting shapes {flat, chain, tree, '
        'top file holds a piece}; injected conflicts on H / S / a Cp point; '
        'values incl. 0.0 and negatives; T_ref below / inside / above the '
        'table; duplicate spellings in one file; direct update histories of '
        'length 1-8 with and without overwrite, rejected updates, repeated '
        'pieces, library-level Update with aliasing probes. Non-trivial = a '
        'split whose every order/nesting was loaded and compared, or a '
        'history whose every step was compared; distinct by split/history.'
        ' Pieces may consist of a range alone. '
        ' '
        'Rounds 17-19: every other tree keeps byte size and time stamps'
        ' across rewrites; conflict written into files that loaded before,'
        ' and repaired in place after a refused load; library directory'
        " reached through a directory link with a '../common/...' include"
        ' (with / without a stale sibling).')
ASSUMPTIONS = [
    'all pieces share one T_ref; every piece that carries Cp points carries a '
    'range containing them and T_ref (the constructor demands it)',
    'H/S equal to 4 ulp (the code re-derives them through the merged table), '
    'Cp points and range bounds exactly',
]
CONFIG = {
    'shards': {'quick': 16, 'thorough': 16},
    'min_nontrivial': {'quick': 900, 'thorough': 6000},
    'required_counters': ['conflicts_decided', 'rejected_updates_checked'],
}
ANCHORS = [
    'pgradd.GroupAdd.Library:GroupLibrary._do_load',
    'pgradd.GroupAdd.Library:GroupLibrary._Load',
    'pgradd.GroupAdd.Library:GroupLibrary.Update',
    'pgradd.ThermoChem.incomplete:ThermochemIncomplete.update',
    'pgradd.ThermoChem.incomplete:ThermochemIncomplete.copy',
    'pgradd.ThermoChem.incomplete:ThermochemIncomplete.has_ND_H',
    'pgradd.ThermoChem.incomplete:ThermochemIncomplete.has_ND_S',
]


# ------------------------------------------------------------ reference
class Conflict(Exception):
    pass


def ulps(a, b):
    if a == b:
        return 0
    if a is None or b is None:
        return 10 ** 9
    a, b = float(a), float(b)
    if a == 0 or b == 0 or (a < 0) != (b < 0):
        return 0 if abs(a - b) < 1e-300 else 10 ** 9
    return abs(a - b) / (math.ulp(max(abs(a), abs(b))))


def ref_merge(state, piece, overwrite=False):
    """state/piece: {'H','S','Cp':{T:v},'range'}.  Returns the new state or
    raises Conflict; never mutates its arguments."""
    new = {'H': state['H'], 'S': state['S'], 'Cp': dict(state['Cp']),
           'range': state['range']}
    for T, v in piece['Cp'].items():
        if not overwrite and T in state['Cp'] and state['Cp'][T] != v:
            raise Conflict('Cp(%g)' % T)
        new['Cp'][T] = v
    for k in ('H', 'S'):
        if piece[k] is not None:
            if not overwrite and state[k] is not None and \
                    state[k] != piece[k]:
                raise Conflict(k)
            new[k] = piece[k]
    if piece['range'] is not None:
        if state['range'] is None:
            new['range'] = list(piece['range'])
        else:
            new['range'] = [min(state['range'][0], piece['range'][0]),
                            max(state['range'][1], piece['range'][1])]
    return new


EMPTY = {'H': None, 'S': None, 'Cp': {}, 'range': None}


def snapshot(c):
    r = c.get_range()
    return {'H': c.ND_H_ref, 'S': c.ND_S_ref, 'Cp': dict(c.ND_Cp_data or {}),
            'T_ref': c.T_ref, 'range': None if r is None else
            [float(r[0]), float(r[1])]}


def behaves_like_its_data(c):
    """None if the merged object evaluates like a correlation constructed
    afresh from the very data it reports (H, S, Cp points, T_ref, range),
    else a reason.  A merge that leaves the stored fields right and the
    internal interpolant stale is caught here."""
    st = snapshot(c)
    fresh = observe(type(c), st['H'], st['S'], dict(st['Cp']), st['T_ref'],
                    tuple(st['range']) if st['range'] else None)
    if 'exc' in fresh:
        return None         # its own data are not constructible: not judged
    f = fresh['ok']
    lo, hi = st['range'] if st['range'] else (st['T_ref'], st['T_ref'])
    ts = sorted(set([st['T_ref'], lo, hi, 0.5 * (lo + hi)] +
                    [float(t) for t in list(st['Cp'])[:3]]))
    ts = [t for t in ts if lo <= t <= hi]
    for T in ts:
        for name in ('get_CpoR', 'get_HoRT', 'get_SoR'):
            a = observe(getattr(c, name), T)
            b = observe(getattr(f, name), T)
            if ('exc' in a) != ('exc' in b) or (
                    'exc' in a and a['exc'] != b['exc']):
                return '%s(%g): merged %s, rebuilt %s' % (
                    name, T, a.get('exc', 'returns'), b.get('exc', 'returns'))
            if 'ok' in a and abs(float(a['ok']) - float(b['ok'])) > 1e-10 * (
                    abs(float(a['ok'])) + abs(float(b['ok'])) + 1e-300):
                return '%s(%g): merged %r, rebuilt %r' % (name, T, a['ok'],
                                                          b['ok'])
    return None


def same_state(got, want, tol_ulp=4):
    """None if equal else reason."""
    for k in ('H', 'S'):
        if (got[k] is None) != (want[k] is None):
            return '%s %s' % (k, 'lost' if got[k] is None else 'appeared')
        if got[k] is not None and ulps(got[k], want[k]) > tol_ulp:
            return '%s differs (%r vs %r)' % (k, got[k], want[k])
    gc = {float(t): float(v) for t, v in got['Cp'].items()}
    wc = {float(t): float(v) for t, v in want['Cp'].items()}
    if gc != wc:
        return 'Cp points differ (%r vs %r)' % (sorted(gc.items())[:5],
                                                sorted(wc.items())[:5])
    if (got['range'] is None) != (want['range'] is None) or (
            want['range'] is not None and
            [float(x) for x in got['range']] !=
            [float(x) for x in want['range']]):
        return 'range differs (%r vs %r)' % (got['range'], want['range'])
    return None


# ------------------------------------------------------------ generators
def gen_group(rng, tref):
    n = rng.randint(1, 4)
    lo = rng.choice([200.0, 300.0, 400.0])
    ts = [lo + 100.0 * i for i in range(n)]
    place = rng.choice(['below', 'inside', 'above'])
    if place == 'below':
        ts = [t + 200.0 for t in ts]
    elif place == 'above':
        ts = [t - 150.0 for t in ts if t - 150.0 > 20.0] or [100.0]
    data = {'H': rng.choice([0.0, -12.5, 3.25, 101.125, -0.5]),
            'S': rng.choice([0.0, 7.75, -2.5, 33.0, 0.125]),
            'Cp': {t: rng.choice([0.0, 1.5, -0.75, 4.25, 9.0]) for t in ts}}
    if rng.random() < 0.15:
        data['H'] = None
    if rng.random() < 0.15:
        data['S'] = None
    return data, place


def split(rng, data, nfiles, tref):
    """Assign each datum to >=1 files (duplicates of identical values
    allowed).  Returns list of pieces (some may be empty)."""
    pieces = [{'H': None, 'S': None, 'Cp': {}, 'range': None}
              for _ in range(nfiles)]

    def targets():
        k = 1 if rng.random() < 0.75 else 2
        return rng.sample(range(nfiles), min(k, nfiles))
    for key in ('H', 'S'):
        if data[key] is not None:
            for f in targets():
                pieces[f][key] = data[key]
    for T, v in data['Cp'].items():
        for f in targets():
            pieces[f]['Cp'][T] = v
    for p in pieces:
        if p['Cp']:
            lo = min(min(p['Cp']), tref)
            hi = max(max(p['Cp']), tref)
            if rng.random() < 0.5:
                lo -= rng.choice([0.0, 10.0, 25.0])
                hi += rng.choice([0.0, 50.0, 500.0])
            p['range'] = [lo, hi]
        elif (p['H'] is not None or p['S'] is not None) and \
                rng.random() < 0.3:
            p['range'] = [tref - rng.choice([0.0, 20.0]),
                          tref + rng.choice([0.0, 100.0])]
    # a file may also give nothing but the range of a group
    r2 = random.Random('c13range:%r' % ((sorted(data['Cp'].items()), nfiles),))
    for p in pieces:
        if not has_data(p) and r2.random() < 0.4:
            p['range'] = [tref - r2.choice([0.0, 20.0, 150.0]),
                          tref + r2.choice([0.0, 100.0, 900.0])]
    return pieces


def has_data(p):
    return p['H'] is not None or p['S'] is not None or bool(p['Cp'])


def has_any(p):
    return has_data(p) or p['range'] is not None


def piece_to_abstract(p, tref):
    return {'T_ref': tref, 'H': p['H'], 'S': p['S'], 'Cp': dict(p['Cp']),
            'range': p['range']}


def nestings(n):
    """Include structures over piece files 0..n-1 as {file: [children]} with
    'top' as root; yields (name, structure-builder taking an order)."""
    yield 'flat', lambda od: {'top': list(od)}
    if n >= 2:
        yield 'chain', lambda od: dict(
            [('top', [od[0]])] + [(od[i], [od[i + 1]])
                                  for i in range(len(od) - 1)])
    if n >= 3:
        yield 'tree', lambda od: {'top': [od[0], od[-1]],
                                  od[0]: list(od[1:-1])}


def write_tree(tree, groups_pieces, structure, tref, top_piece=None,
               spelling=None):
    """groups_pieces: {gname: [piece per file]}.  structure: {'top'|idx:
    [children idx]}."""
    nfiles = len(next(iter(groups_pieces.values())))
    for f in range(nfiles):
        groups = {}
        for g, pieces in groups_pieces.items():
            if has_any(pieces[f]):
                groups[g] = piece_to_abstract(pieces[f], tref)
        inc = ['p%d.yaml' % c for c in structure.get(f, [])]
        text = libfiles.render_library(groups, include=inc,
                                       group_spelling=spelling)
        tree.write('p%d.yaml' % f, text)
    top_groups = {}
    if top_piece:
        for g, p in top_piece.items():
            if has_data(p):
                top_groups[g] = piece_to_abstract(p, tref)
    text = libfiles.render_library(
        top_groups, include=['p%d.yaml' % c for c in structure['top']])
    return libfiles.write_library(tree, 'library.yaml', text)


# ------------------------------------------------------------------ checks
def check_split(ctx, case):
    rng = random.Random('c13:%s' % case['key'])
    tref = rng.choice([298.15, 300.0, 250.0])
    nfiles = rng.randint(1, 4)
    ngroups = rng.randint(1, 2)
    gp = {}
    want = {}
    places = []
    for gi in range(ngroups):
        data, place = gen_group(rng, tref)
        places.append(place)
        name = 'C(C)%d(H)' % (gi + 2)
        pieces = split(rng, data, nfiles, tref)
        gp[name] = pieces
    conflict = case.get('conflict')
    import copy as _copy
    gp_clean = _copy.deepcopy(gp)
    top_piece = None
    if rng.random() < 0.3:
        # the top file itself holds a duplicate of one datum
        g0 = next(iter(gp))
        src = [p for p in gp[g0] if has_data(p)]
        if src:
            top_piece = {g0: dict(src[0], Cp=dict(src[0]['Cp']))}
    if conflict:
        g0 = next(iter(gp))
        holders = [i for i, p in enumerate(gp[g0]) if has_data(p)]
        kinds = []
        for k in ('H', 'S'):
            if any(gp[g0][i][k] is not None for i in holders):
                kinds.append(k)
        if any(gp[g0][i]['Cp'] for i in holders):
            kinds.append('Cp')
        if not kinds or nfiles < 2:
            ctx.skip('no datum to put in conflict')
            return
        kind = rng.choice(kinds)
        if kind in ('H', 'S'):
            src = [i for i in holders if gp[g0][i][kind] is not None][0]
            dst = rng.choice([i for i in range(nfiles) if i != src])
            gp[g0][dst][kind] = gp[g0][src][kind] + rng.choice(
                [2.0, -1.0, 1e-9, 0.5])
            if gp[g0][dst][kind] == 0.0 or gp[g0][src][kind] == 0.0:
                case = dict(case, zero_involved=True)
        else:
            src = [i for i in holders if gp[g0][i]['Cp']][0]
            T = rng.choice(sorted(gp[g0][src]['Cp']))
            dst = rng.choice([i for i in range(nfiles) if i != src])
            base_v = gp[g0][src]['Cp'][T]
            # a visible conflict, or one of a single ulp (two conversions of
            # one table): heat capacities are compared exactly
            import math as _m
            gp[g0][dst]['Cp'][T] = rng.choice([
                base_v + 1.0, _m.nextafter(base_v, _m.inf),
                _m.nextafter(base_v, -_m.inf),
                base_v * (1 + 4e-16) if base_v else 5e-324])
            if gp[g0][dst]['Cp'][T] == base_v:
                gp[g0][dst]['Cp'][T] = base_v + 1.0
            r = gp[g0][dst]['range'] or [min(T, tref), max(T, tref)]
            gp[g0][dst]['range'] = [min(r[0], T, tref), max(r[1], T, tref)]
        case = dict(case, conflict_kind=kind)
    # reference union (order-free when there is no conflict)
    for g, pieces in gp.items():
        st = EMPTY
        try:
            for p in ([top_piece[g]] if top_piece and g in top_piece
                      else []) + pieces:
                if has_any(p):
                    if not has_data(p):
                        ctx.count('range_only_pieces')
                    st = ref_merge(st, p)
            want[g] = st
        except Conflict:
            want[g] = 'conflict'
    expect_conflict = any(v == 'conflict' for v in want.values())
    if expect_conflict != bool(conflict):
        ctx.skip('generator produced an unintended conflict state')
        return
    files = list(range(nfiles))
    orders = list(itertools.permutations(files))
    n_loaded = 0
    for od in orders:
        for nname, builder in nestings(nfiles):
            structure = builder(od)
            with libfiles.TempTree(stat_stable=(n_loaded % 2 == 0)) as tree:
                if expect_conflict and n_loaded % 5 == 1:
                    # the files first hold the conflict-free data and load;
                    # then the conflict is written into them in place (same
                    # paths, same process): the second load sees the files
                    # as they are NOW
                    p0 = write_tree(tree, gp_clean, structure, tref, None)
                    o0 = observe(libs.fresh, p0)
                    if 'exc' in o0:
                        ctx.violation('loading a conflict-free split raised '
                                      '%s' % o0['exc'], dict(
                                          case, order=list(od)),
                                      {'msg': o0['msg'], 'pieces': gp_clean})
                        return
                    ctx.count('conflicts_written_into_files_loaded_before')
                p = write_tree(tree, gp, structure, tref, top_piece)
                o = observe(libs.fresh, p)
                if tree.same_stat_rewrites:
                    ctx.count('files_rewritten_with_size_and_mtime_unchanged',
                              tree.same_stat_rewrites)
                    tree.same_stat_rewrites = 0
                if expect_conflict and 'exc' in o and n_loaded % 5 == 0:
                    # the same files once more, then the files REPAIRED in
                    # place (same paths, same process): a failed load must
                    # leave nothing behind
                    o2 = observe(libs.fresh, p)
                    if o2.get('exc') != o['exc']:
                        ctx.violation('a second load of the same conflicting '
                                      'files behaves differently', dict(
                                          case, order=list(od)),
                                      {'first': o['exc'],
                                       'second': o2.get('exc', 'loaded')})
                        return
                    write_tree(tree, gp_clean, structure, tref, None)
                    o3 = observe(libs.fresh, p)
                    if tree.same_stat_rewrites:
                        ctx.count(
                            'files_rewritten_with_size_and_mtime_unchanged',
                            tree.same_stat_rewrites)
                    bad = None
                    if 'exc' in o3:
                        bad = 'raises %s' % o3['exc']
                    else:
                        for g_, pieces_ in gp_clean.items():
                            st_ = EMPTY
                            for p_ in pieces_:
                                if has_any(p_):
                                    st_ = ref_merge(st_, p_)
                            if not any(has_any(x) for x in pieces_):
                                continue
                            e_ = o3['ok'][g_]
                            w_ = same_state(snapshot(e_['thermochem']), st_) \
                                if 'thermochem' in e_ else 'group missing'
                            if w_:
                                bad = w_
                    if bad:
                        ctx.violation('loading the repaired files after a '
                                      'failed load: %s' % bad.split(' (')[0],
                                      dict(case, order=list(od)),
                                      {'why': bad})
                        return
                    ctx.count('repaired_after_failed_load')
            ctx.evals()
            c = dict(case, order=list(od), nesting=nname, T_ref=tref,
                     places=places)
            if expect_conflict:
                if 'ok' in o:
                    ctx.violation('conflicting values merged silently%s' % (
                        ' (zero value involved)'
                        if case.get('zero_involved') else ''), c,
                        {'pieces': gp})
                    return
                if o['exc'] != 'ReadOnlyDataError':
                    ctx.violation('conflict raised %s instead of '
                                  'ReadOnlyDataError' % o['exc'], c,
                                  {'msg': o['msg']})
                    return
                ctx.count('conflicts_decided')
                n_loaded += 1
                continue
            if 'exc' in o:
                ctx.violation('loading a conflict-free split raised %s'
                              % o['exc'], c, {'msg': o['msg'], 'pieces': gp})
                return
            lib = o['ok']
            for g, st in want.items():
                if not any(has_any(x) for x in gp[g]) and not (
                        top_piece and g in top_piece):
                    continue
                ent = lib[g]
                if 'thermochem' not in ent:
                    ctx.violation('group missing after the merge', c, {})
                    return
                got = snapshot(ent['thermochem'])
                why = same_state(got, st)
                zero = any(x == 0.0 for x in (st['H'], st['S']))
                if why:
                    ctx.violation('merged library != union of the pieces: %s%s'
                                  % (why.split(' (')[0],
                                     ' [a zero value is involved]'
                                     if zero and ('lost' in why) else ''), c,
                                  {'why': why, 'pieces': gp[g], 'union': st})
                    return
                if got['T_ref'] != tref:
                    ctx.violation('T_ref changed by the merge', c,
                                  {'got': got['T_ref']})
                    return
                why = behaves_like_its_data(ent['thermochem'])
                ctx.evals()
                if why:
                    ctx.violation('merged correlation does not evaluate like '
                                  'its own data', c, {'why': why,
                                                      'pieces': gp[g]})
                    return
                ctx.count('merged_objects_evaluated_against_rebuilt')
            n_loaded += 1
    if n_loaded:
        ctx.nontrivial(['split', case['key'], bool(conflict)])
        ctx.klass('%d files, %d orders x nestings%s' % (
            nfiles, n_loaded, ', conflict' if conflict else ''))
        ctx.sample({'key': case['key'], 'files': nfiles, 'T_ref': tref,
                    'pieces': {g: [p for p in ps if has_any(p)]
                               for g, ps in gp.items()},
                    'orders_x_nestings': n_loaded,
                    'conflict': case.get('conflict_kind')})


def check_duplicate_spelling(ctx, key):
    rng = random.Random('c13dup:%s' % key)
    g = libfiles.random_group(rng, with_h=True)
    text = ("groups:\n    'C(C)(H)3':\n        'thermochem':\n%s\n"
            "    %s:\n        'thermochem':\n%s\n" % (
                libfiles.render_thermochem(g),
                libfiles.q(rng.choice(['C(H)3(C)', 'C(H)(C)(H)2',
                                       'C(H)2(C)(H)', 'C(C)1(H)3'])),
                libfiles.render_thermochem(g)))
    with libfiles.TempTree() as tree:
        p = libfiles.write_library(tree, 'library.yaml', text)
        o = observe(libs.fresh, p)
    ctx.evals()
    if 'ok' in o:
        ctx.violation('one group under two spellings in one file accepted',
                      {'dup_key': key}, {'text': text[:600]})
        return
    ctx.klass('duplicate spelling rejected with %s' % o['exc'])
    ctx.nontrivial(['dup', key])


def make_corr(p, tref):
    from pgradd.ThermoChem import ThermochemGroup
    return ThermochemGroup(p['H'], p['S'], dict(p['Cp']), tref,
                           tuple(p['range']) if p['range'] else None)


def check_history(ctx, case):
    rng = random.Random('c13h:%s' % case['key'])
    tref = rng.choice([298.15, 300.0])
    data, place = gen_group(rng, tref)
    data2, _ = gen_group(rng, tref)
    pieces = [p for p in split(rng, data, 4, tref) if has_data(p)]
    # conflicting variants
    alt = [p for p in split(rng, data2, 3, tref) if has_data(p)]
    if not pieces:
        return
    target = make_corr(pieces[0], tref)
    state = ref_merge(EMPTY, pieces[0])
    steps = rng.randint(1, 8)
    hist = []
    for s in range(steps):
        src = rng.choice(['same', 'same', 'repeat', 'alt'])
        if src == 'alt' and alt:
            p = rng.choice(alt)
        elif src == 'repeat' and hist:
            p = hist[-1][0]
        else:
            p = rng.choice(pieces)
        ow = rng.random() < 0.25
        hist.append((p, ow))
        before = snapshot(target)
        probeT = tref
        hb = observe(target.get_HoRT, probeT)
        o = observe(target.update, make_corr(p, tref), ow)
        ctx.evals()
        c = dict(case, step=s, piece=p, overwrite=ow, T_ref=tref,
                 history=[[h[0], h[1]] for h in hist])
        try:
            new_state = ref_merge(state, p, ow)
            rejected = False
        except Conflict:
            rejected = True
        after = snapshot(target)
        if rejected:
            if 'ok' in o:
                zero = any(x == 0.0 for x in (p['H'], p['S'], state['H'],
                                              state['S']))
                ctx.violation('conflicting update accepted without overwrite'
                              '%s' % (' [a zero value is involved]' if zero
                                      else ''), c, {'state': state})
                return
            if o['exc'] != 'ReadOnlyDataError':
                ctx.violation('conflicting update raised %s' % o['exc'], c,
                              {'msg': o['msg']})
                return
            if after != before:
                ctx.violation('rejected update changed the correlation', c,
                              {'before': before, 'after': after})
                return
            ha = observe(target.get_HoRT, probeT)
            if repr(ha.get('ok', ha.get('exc'))) != repr(
                    hb.get('ok', hb.get('exc'))):
                ctx.violation('rejected update changed evaluated values', c,
                              {'before': repr(hb), 'after': repr(ha)})
                return
            ctx.count('rejected_updates_checked')
            continue
        if 'exc' in o:
            ctx.violation('admissible update raised %s' % o['exc'], c,
                          {'msg': o['msg'], 'state': state})
            return
        why = same_state(after, new_state)
        if why:
            zero = any(x == 0.0 for x in (p['H'], p['S']))
            ctx.violation('update result != union: %s%s' % (
                why.split(' (')[0], ' [a zero value is involved]'
                if zero and ('lost' in why or 'differs' in why) else ''), c,
                {'why': why, 'state_before': state, 'want': new_state})
            return
        why = behaves_like_its_data(target)
        if why:
            ctx.violation('updated correlation does not evaluate like its own '
                          'data', c, {'why': why, 'state': new_state})
            return
        ctx.count('merged_objects_evaluated_against_rebuilt')
        if src == 'repeat' and not ow:
            ctx.count('idempotence_checked')
        state = new_state
    ctx.nontrivial(['hist', case['key']])
    ctx.klass('update history of %d steps' % steps)


def digest_lib(lib):
    out = {}
    for g in lib:
        ent = lib[g]
        if 'thermochem' in ent:
            out[str(g)] = repr(sorted(snapshot(ent['thermochem']).items(),
                                      key=lambda kv: kv[0]))
    return out


def check_library_update(ctx, key):
    """GroupLibrary.Update: copy on first sight (no aliasing with the source
    library), later merges into the target must not change the source."""
    from pgradd.GroupAdd.Library import GroupLibrary
    rng = random.Random('c13L:%s' % key)
    tref = 298.15
    data, _ = gen_group(rng, tref)
    pieces = [p for p in split(rng, data, 3, tref)]
    texts = []
    for p in pieces:
        groups = {'C(C)(H)3': piece_to_abstract(p, tref)} if has_data(p) \
            else {}
        groups['O(C)(H)'] = libfiles.random_group(rng, with_h=True, tref=tref)
        texts.append(libfiles.render_library(groups))
    loaded = []
    with libfiles.TempTree() as tree:
        for i, t in enumerate(texts):
            pth = libfiles.write_library(tree, 'd%d/library.yaml' % i, t)
            loaded.append(libs.fresh(pth))
    target = GroupLibrary(loaded[0].scheme)
    case = {'libupdate': key}
    before = [digest_lib(x) for x in loaded]
    for i, src in enumerate(loaded):
        o = observe(target.Update, src, True)
        ctx.evals()
        if 'exc' in o:
            ctx.violation('GroupLibrary.Update raised %s' % o['exc'], case,
                          {'msg': o['msg']})
            return
        now = [digest_lib(x) for x in loaded]
        if now != before:
            ctx.violation('Update into a scratch library changed a source '
                          'library (aliasing)', case,
                          {'step': i, 'changed': [j for j in range(len(now))
                                                  if now[j] != before[j]]})
            return
    ctx.nontrivial(['libupdate', key])
    ctx.klass('library-level Update without aliasing')


def check_parent_include_through_link(ctx, key):
    """The library's directory is reached through a DIRECTORY symlink (a
    'current release' link) and its top file includes '../common/base.yaml'.
    The operating system resolves 'link/..' to the parent of the link's
    TARGET; next to the link itself lies a stale file of the same name with
    other data.  The union is that of the files the OS names."""
    rng = random.Random('c13link:%s' % key)
    tref = rng.choice([298.15, 300.0])
    data, place = gen_group(rng, tref)
    pieces = split(rng, data, 2, tref)
    gname = 'C(C)2(H)2'
    want = EMPTY
    try:
        for p_ in pieces:
            if has_any(p_):
                want = ref_merge(want, p_)
    except Conflict:
        ctx.skip('generator produced a conflict')
        return
    if not has_any(pieces[0]) and not has_any(pieces[1]):
        return
    stale = {'H': (data['H'] or 0.0) + 3.0, 'S': (data['S'] or 0.0) - 2.0,
             'Cp': {t: v + 1.0 for t, v in pieces[1]['Cp'].items()},
             'range': pieces[1]['range']}
    case = {'link_key': key}
    with libfiles.TempTree() as tree:
        def groups_of(p_):
            return {gname: piece_to_abstract(p_, tref)} if has_any(p_) else {}
        top = libfiles.render_library(groups_of(pieces[0]),
                                      include=['../common/base.yaml'])
        real = libfiles.write_library(tree, 'releases/v2/mylib/library.yaml',
                                      top)
        tree.write('releases/v2/common/base.yaml',
                   libfiles.render_library(groups_of(pieces[1])))
        for decoy in (True, False):
            site = os.path.join(tree.path, 'site%d' % decoy)
            os.makedirs(site)
            os.symlink(os.path.dirname(real), os.path.join(site, 'mylib'))
            if decoy:
                tree.write('site1/common/base.yaml',
                           libfiles.render_library({gname: piece_to_abstract(
                               stale, tref)}))
            o_real = observe(libs.fresh, real)
            o = observe(libs.fresh, os.path.join(site, 'mylib',
                                                 'library.yaml'))
            ctx.evals(2)
            c = dict(case, stale_sibling=decoy)
            if 'exc' in o_real:
                ctx.skip('the tree does not load from its real directory '
                         '(%s)' % o_real['exc'])
                return
            if 'exc' in o:
                ctx.violation('a library reached through a directory link '
                              'whose top file includes ../common/... does '
                              'not load (%s)' % o['exc'], c,
                              {'msg': o['msg']})
                return
            ent = o['ok'][gname]
            why = same_state(snapshot(ent['thermochem']), want) \
                if 'thermochem' in ent else 'group missing'
            if why:
                ctx.violation('a library reached through a directory link '
                              'merged another file than the one its include '
                              'names: %s' % why.split(' (')[0], c,
                              {'why': why})
                return
            ctx.count('parent_includes_resolved_through_a_directory_link')
    ctx.nontrivial(['link', key])


def run_shard(ctx):
    n = 700 if ctx.tier == 'quick' else 5000
    for i in range(30 if ctx.tier == 'quick' else 300):
        if ctx.mine(i):
            check_parent_include_through_link(ctx, 'K%d_%d' % (ctx.seed, i))
    for i in range(n):
        if ctx.mine(i):
            check_split(ctx, {'key': 'S%d_%d' % (ctx.seed, i),
                              'conflict': i % 4 == 3})
    for i in range(n):
        if ctx.mine(i):
            check_history(ctx, {'key': 'H%d_%d' % (ctx.seed, i)})
    for i in range(40 if ctx.tier == 'quick' else 300):
        if ctx.mine(i):
            check_duplicate_spelling(ctx, 'D%d_%d' % (ctx.seed, i))
            check_library_update(ctx, 'L%d_%d' % (ctx.seed, i))


def replay(ctx, case):
    if 'link_key' in case:
        return check_parent_include_through_link(ctx, case['link_key'])
    if 'dup_key' in case:
        check_duplicate_spelling(ctx, case['dup_key'])
    elif 'libupdate' in case:
        check_library_update(ctx, case['libupdate'])
    elif case['key'].startswith('H'):
        check_history(ctx, {'key': case['key']})
    else:
        check_split(ctx, {'key': case['key'],
                          'conflict': case.get('conflict')})


def classify(v):
    return None


LEVEL_TEXT = ('Held on every generated split and history: each split is '
              'loaded in ALL include orders and nesting shapes and compared '
              'with an independent union model; conflicts must raise '
              'ReadOnlyDataError; update histories are checked step by step '
              'with snapshots (atomic rejection, idempotence, no aliasing). '
              'Exploration over splits/histories, exhaustive over orders.')
