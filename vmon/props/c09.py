"""C09 -- reading RING text always ends with a query or a RING error.

Monitor kind: outcome-class oracle on Read(text) + logical-step budget
(sys.monitoring) for the "never hangs" clause + consumed-position capture
(ParseState) and black-box trailing-text probes for "consumed in full".
"""
import random
import re
import traceback

from vmon.core.obs import observe, StepBudgetExceeded
from vmon.core import libs
from vmon.refs import ring as R
from vmon.refs import rxn as X

TECHNIQUE = ('runtime monitoring: outcome-class oracle over generated, '
             'truncated and mutated RING texts, sys.monitoring step budget '
             'for termination, parser-position capture + trailing-text probes '
             'for full consumption')
RULE = ('valid corpus = generated fragments and rules + all 731 shipped '
        'patterns; derived: every character prefix, single-token deletion / '
        'substitution / duplication / insertion, label misuse, unknown and '
        'non-ASCII symbols and digits, group-name constraints, unsupported '
        'Booleans / bond kinds, constraints{} blocks, empty / whitespace / '
        'very long identifiers, random printable and Unicode text, CRLF, and '
        'deep inputs (chains of 50-400 atoms / constraints). Non-trivial = a '
        'text whose outcome was classified under the step monitor; distinct '
        'by text. bounded time = 5000 + 400*len(text) logical steps '
        '(function entries + jumps inside pgradd.RINGParser / RDkitWrapper).'
        ' '
        'Round 17: ~60 valid, truncated and mutated texts read from four'
        ' threads at once, outcome equal to the lone read.'
        ' '
        'Round 20: numerals of 640-1000 digits; one worker lowers'
        ' sys.set_int_max_str_digits after import.')
ASSUMPTIONS = [
    'the step budget is >= 10x the largest count seen on valid input of the '
    'same length (calibration reported as max_steps_per_char)',
    'allowed outcomes: MolQuery / ReactionQuery; RINGSyntaxError with a '
    'position inside the text whose str() renders; RINGReaderError; '
    'NotImplementedError',
]
CONFIG = {
    'shards': {'quick': 16, 'thorough': 16},
    'min_nontrivial': {'quick': 20000, 'thorough': 400000},
    'timeout': {'quick': 900, 'thorough': 10800},
    'required_counters': ['parse_states_captured', 'accepted_texts',
                          'trailing_text_probes'],
}
ANCHORS = [
    'pgradd.RINGParser.Parser:String.__call__',
    'pgradd.RINGParser.Parser:ParseState.__exit__',
    'pgradd.RINGParser.Parser:ParseState.parse',
    'pgradd.RINGParser.Reader:Read',
    'pgradd.RINGParser.MolQueryRead:MolQueryReader.ReadBondedAtom',
    'pgradd.RINGParser.MolQueryRead:MolQueryReader.ReadSymbols',
    'pgradd.RINGParser.ReactionQueryRead:ReactionQueryReader.Read',
    'pgradd.Error:RINGSyntaxError.update',
]
FILLER = ' \n\t'
_state = {'sb': None, 'last_ps': None, 'captured': 0}


def setup():
    if _state['sb'] is not None:
        return
    from vmon.monitors.stepbudget import StepBudget
    from pgradd.RINGParser import Parser, Reader, MolQueryRead, \
        ReactionQueryRead, Grammar
    from pgradd.RDkitWrapper import MolQuery, ReactionQuery
    from pgradd import Error
    orig = Parser.ParseState.__init__

    def init(self, *a, **k):
        _state['last_ps'] = self
        _state['captured'] += 1
        return orig(self, *a, **k)
    Parser.ParseState.__init__ = init
    sb = StepBudget([Parser, Reader, MolQueryRead, ReactionQueryRead,
                     Grammar, MolQuery, ReactionQuery, Error])
    sb.install()
    _state['sb'] = sb


def monitor_evaluations():
    return {'parse_states_captured': _state['captured']}


def site_of(exc):
    """innermost pgradd frame of a traceback: function name."""
    tb = traceback.extract_tb(exc.__traceback__)
    for fr in reversed(tb):
        if '/pgradd/' in fr.filename:
            return '%s:%s' % (fr.filename.rsplit('/', 1)[-1][:-3], fr.name)
    return '?'


def budget_for(text):
    return 5000 + 400 * len(text)


def read_monitored(text):
    """-> (observation, steps)"""
    from pgradd.RINGParser import Read
    sb = _state['sb']
    _state['last_ps'] = None
    sb.window(budget_for(text))
    try:
        o = observe(Read, text)
    except StepBudgetExceeded as exc:
        o = {'exc': 'StepBudgetExceeded', 'msg': 'more than %d logical '
             'steps for %d characters' % (budget_for(text), len(text)),
             'obj': exc, 'warn': []}
    except RecursionError as exc:        # raised while unwinding a monitor
        o = {'exc': 'RecursionError', 'msg': str(exc)[:100], 'obj': exc,
             'warn': []}
    steps = sb.close()
    return o, steps


def check_text(ctx, text, klass, valid=None):
    """valid: True if the generator knows the text is valid RING (then a
    rejection is not judged here -- C08/C16 own semantics -- but counted)."""
    o, steps = read_monitored(text)
    ctx.evals()
    case = {'text': text, 'klass': klass}
    n = max(len(text), 1)
    ctx.maximum('max_steps_per_char_x100', int(100.0 * steps / n)
                if len(text) >= 40 else 0)
    ctx.maximum('max_steps', steps)
    if 'ok' in o:
        q = o['ok']
        tn = type(q).__name__
        if tn not in ('MolQuery', 'ReactionQuery'):
            ctx.violation('Read returned a %s' % tn, case, {})
            return 'bad'
        ps = _state['last_ps']
        end = len(text.rstrip(FILLER))
        if ps is not None and ps.sidx < end:
            ctx.violation('accepted text was not consumed in full', case,
                          {'consumed': ps.sidx, 'length': end,
                           'rest': text[ps.sidx:ps.sidx + 60]})
            return 'bad'
        ctx.count('accepted_texts')
        for tail in (' @', ' }', ' junk junk'):
            o2, _ = read_monitored(text + tail)
            ctx.evals()
            ctx.count('trailing_text_probes')
            if 'ok' in o2:
                ctx.violation('accepted text stays accepted with trailing '
                              'text appended', case, {'appended': tail})
                return 'bad'
        ctx.klass('accepted: ' + klass)
        ctx.nontrivial(text)
        return 'accepted'
    exc = o['exc']
    if exc == 'RINGSyntaxError':
        e = o['obj']
        lines = text.split('\n')
        ok = isinstance(e.lineno, int) and isinstance(e.colno, int) and \
            1 <= e.lineno <= len(lines) and \
            1 <= e.colno <= len(lines[e.lineno - 1]) + 1
        if not ok:
            ctx.violation('syntax error position outside the text', case,
                          {'lineno': e.lineno, 'colno': e.colno,
                           'lines': len(lines)})
            return 'bad'
        if o['msg'].startswith('<str() failed'):
            ctx.violation('str(RINGSyntaxError) fails', case,
                          {'msg': o['msg']})
            return 'bad'
    elif exc in ('RINGReaderError', 'NotImplementedError'):
        if o['msg'].startswith('<str() failed'):
            ctx.violation('str(%s) fails' % exc, case, {'msg': o['msg']})
            return 'bad'
    else:
        where = site_of(o['obj']) if exc != 'StepBudgetExceeded' else \
            'step budget'
        sig = 'Read escaped with %s (%s)' % (exc, where)
        if exc == 'RecursionError':
            sig = 'Read escaped with RecursionError (deep input)'
        ctx.violation(sig, case, {'msg': o['msg'], 'steps': steps,
                                  'len': len(text)})
        return 'bad'
    if valid:
        ctx.count('valid_texts_rejected_with_%s' % exc)
    ctx.klass('%s: %s' % (exc, klass))
    ctx.nontrivial(text)
    return exc


# --------------------------------------------------------------- mutators
TOKEN_RE = re.compile(r'[A-Za-z0-9_]+|\s+|[^\sA-Za-z0-9_]')
VOCAB = ['fragment', 'labeled', 'single', 'double', 'bond', 'to', 'bond to',
         'ringbond', 'connected to', 'with', 'in ring of size', 'in', 'ring',
         'has', 'radical electrons', 'rule', 'reactant', 'break', 'form',
         'increase bond order', 'decrease number of radical', 'modify bond',
         'constraints{', 'group', 'positive', 'cyclic', 'aromatic', '{', '}',
         '(', ')', ',', '!', '||', '&&', '+', '-', '.', ':', '?', '*', '$',
         '&', '>', '<', '=', '>=', '0', '7', '12', 'C', 'Pt', 'Xx', 'c1',
         'AtomLabel', 'any atom', 'stereo double bond', 'cis', '=>',
         'duplicates', '²', '٣', 'é', '\x00', '"', "'", '\\', '#',
         'quintuple', 'ionic', 'is cyclic', '.size', 'contains']


def mutate(rng, text):
    toks = TOKEN_RE.findall(text)
    idx = [i for i, t in enumerate(toks) if not t.isspace()]
    if not idx:
        return text + rng.choice(VOCAB)
    i = rng.choice(idx)
    op = rng.random()
    if op < 0.25:
        del toks[i]
    elif op < 0.5:
        toks[i] = rng.choice(VOCAB)
    elif op < 0.65:
        toks.insert(i, toks[i] + ' ')
    elif op < 0.85:
        toks.insert(i, rng.choice(VOCAB) + ' ')
    elif op < 0.92:
        j = rng.choice(idx)
        toks[i], toks[j] = toks[j], toks[i]
    else:
        k = rng.randrange(len(text) + 1)
        return text[:k] + rng.choice('{}(),!@#x1 \n\t\r') + text[k + 1:]
    return ''.join(toks)


def random_text(rng):
    n = rng.randint(0, 60)
    kind = rng.random()
    if kind < 0.4:
        alphabet = ''.join(chr(c) for c in range(32, 127)) + '\n\t'
    elif kind < 0.7:
        alphabet = 'fragmentlabedCHO{}()!,. \n0123456789_$&?:+-<>='
    else:
        alphabet = ''.join(chr(rng.randint(1, 0x2fff)) for _ in range(40)) + \
            'fragment {}'
    return ''.join(rng.choice(alphabet) for _ in range(n))


CURATED = [
    '', ' ', '\n', '\t \n', 'fragment', 'fragment a', 'fragment a{',
    'fragment a{C', 'fragment a{C labeled', 'fragment a{C labeled c1',
    'fragment a{C labeled c1}', 'fragment a{C labeled c1} junk junk',
    'fragment a{C labeled c1}}', 'fragment a{C labeled c1} fragment b{C '
    'labeled c1}', 'rule', 'rule r', 'rule r{', 'rule r{reactant',
    'rule r{reactant a{C labeled c1}', 'rule r{reactant a{C labeled c1}}',
    'fragment a{c labeled c1}', 'fragment a{Xx labeled c1}',
    'fragment a{Xe labeled c1}', 'fragment a{é labeled c1}',
    'fragment a{C labeled c1 {connected to group G}}',
    'fragment a{C labeled c1 {connected to >² C}}',
    'fragment a{C labeled c1 {connected to ٣ C}}',
    'fragment a{C labeled c1 {in ring of size ²}}',
    'fragment a{C labeled c1 {|| connected to C}}',
    'fragment a{C labeled c1 {&& in ring of size 3}}',
    'fragment a{C labeled c1 {+ has 1 radical electrons}}',
    'fragment a{C labeled c1 {- in 1 ring}}',
    'fragment a{C labeled AtomLabel C labeled AtomLabel single bond to '
    'AtomLabel}',
    'fragment a{C labeled c1 C labeled c1 single bond to c1}',
    'fragment a{C labeled c1 C labeled c2 single bond to c3}',
    'fragment a{C labeled c1 ringbond c1 single bond to c9}',
    'fragment a{C labeled c1 C labeled c2 single bond to c2}',
    'fragment a{C labeled c1 ringbond c1 single bond to c1}',
    'fragment a{C labeled c1 C labeled c2 single bond to c1 ringbond c1 '
    'single bond to c2}',
    'fragment a{C labeled c1 C labeled c2 single bond to c1 ringbond c2 '
    'double bond to c1}',
    'fragment a{C labeled c1 C labeled c2 single bond to c1 C labeled c3 '
    'single bond to c2 ringbond c3 any bond to c1 ringbond c1 ring bond to '
    'c3}',
    'fragment a{C labeled c1 C labeled c2 quintuple bond to c1}',
    'fragment a{C* labeled c1}', 'fragment a{allylic C labeled c1}',
    'fragment a{C labeled c1 C labeled c2 double bond to c1 '
    'stereo double bond c1 cis to c2 for double bond between c1 and c2}',
    'fragment a{C labeled c1 C labeled c2 single bond to c1 '
    'stereo double bond c1 cis to c2 for double bond between c1 and c2}',
    'rule r{reactant a{C labeled c1} constraints{a.size > 3} '
    'increase number of radical (c1)}',
    'rule r{reactant a{C labeled c1} reactant b group G (c1 => c2) '
    'increase number of radical (c1)}',
    'rule r{reactant a{C labeled c1} reactant b duplicates a (c1 => c2) '
    'increase number of radical (c1) decrease number of radical (c2)}',
    'rule r{reactant a{C labeled c1} modify atomtype (c1, C.)}',
    'rule r{reactant a{C labeled c1} modify atomtype (c1, O)}',
    'rule r{reactant a{C labeled c1} modify atomtype (c1, C?)}',
    'rule r{reactant a{C labeled c1} modify number of radical (c1, 2) '
    'modify number of radical (c1, 0)}',
    'rule r{reactant a{C labeled c1} break bond (c1, c9)}',
    'rule r{reactant a{C labeled c1 H labeled h1 any bond to c1} '
    'break bond (c1, h1)}',
    'rule r{reactant a{C labeled c1 H labeled h1 single bond to c1} '
    'break double bond (c1, h1)}',
    'rule r{reactant a{C labeled c1 H labeled h1 single bond to c1} '
    'form aromatic bond (c1, h1)}',
    'rule r{reactant a{C labeled c1 H labeled h1 single bond to c1} '
    'modify bond (c1, h1, ring)}',
    'rule increaseBO{reactant r1{C labeled c1 H labeled h1 single bond to '
    'c1} increase number of radical (c1) increase number of radical (h1) '
    'break bond(c1,h1) }',
    'positive aromatic cyclic fragment a{C labeled c1}',
    'cyclic positive fragment a{C labeled c1}',
    'fragment ' + 'a' * 5000 + '{C labeled c1}',
    'fragment a{C labeled ' + 'c' * 5000 + '}',
    'fragment a{' + 'C' * 300 + ' labeled c1}',
    'fragment a{C labeled c1}\r\n', 'fragment a{\r\nC labeled c1\r\n}',
    'fragment\ta{\tC\tlabeled\tc1\t}', 'fragmenta{Clabeledc1}',
    'fragment a { C labeled c1 { connected to 0 Pt with partial bond } }',
]


def deep_texts(rng, n):
    chain = 'fragment a{C labeled c0' + ''.join(
        ' C labeled c%d single bond to c%d' % (i, i - 1)
        for i in range(1, n)) + '}'
    cons = 'fragment a{C labeled c1 {' + ', '.join(
        rng.choice(['connected to >=1 C', '! in ring of size 3',
                    'has 0 radical electrons', 'in <2 ring'])
        for _ in range(n)) + '}}'
    rule = 'rule r{reactant a{C labeled c0' + ''.join(
        ' C labeled c%d single bond to c%d' % (i, i - 1)
        for i in range(1, n)) + '} ' + ' '.join(
        'increase number of radical (c%d) decrease number of radical (c%d)'
        % (i, i) for i in range(n)) + '}'
    return [('deep atom chain %d' % n, chain),
            ('deep constraint chain %d' % n, cons),
            ('deep rule %d' % n, rule)]


def rule_edit_probes():
    """Systematic hostile rule texts: every edit form x every label pair of
    a 4-atom reactant (incl. an undefined label, the same label twice, a pair
    without a pattern bond, an 'any' pattern bond) and every single-atom edit
    incl. 'modify atomtype' with all kinds of atom types."""
    import itertools
    pat = ('reactant a{C labeled c1 C labeled c2 single bond to c1 H labeled '
           'h1 any bond to c2 O labeled o1 double bond to c1}')
    two = ['break bond (%s,%s)', 'break single bond (%s,%s)',
           'break double bond (%s,%s)', 'break aromatic bond (%s,%s)',
           'break ring bond (%s,%s)', 'form bond (%s,%s)',
           'form triple bond (%s,%s)', 'form any bond (%s,%s)',
           'modify bond (%s,%s,double)', 'modify bond (%s,%s,any)',
           'modify bond (%s,%s,aromatic)', 'increase bond order (%s,%s)',
           'decrease bond order (%s,%s)']
    one = ['increase number of radical (%s)',
           'decrease number of radical (%s)',
           'modify number of radical (%s, 2)',
           'modify number of radical (%s, 99)',
           'increase formal charge (%s)', 'decrease formal charge (%s)',
           'modify atomtype (%s, C.)', 'modify atomtype (%s, O+)',
           'modify atomtype (%s, C*)', 'modify atomtype (%s, aromatic C)',
           'modify atomtype (%s, nonringatom C.)', 'modify atomtype (%s, $)',
           'modify atomtype (%s, C:.)', 'modify atomtype (%s, C?)',
           'modify atomtype (%s, c)', 'modify atomtype (%s, Xx)']
    out = []
    for f in two:
        for a, b in itertools.product(['c1', 'c2', 'h1', 'o1', 'zz'],
                                      repeat=2):
            out.append('rule r{%s %s}' % (pat, f % (a, b)))
    for f in one:
        for a in ['c1', 'h1', 'zz', '']:
            out.append('rule r{%s %s}' % (pat, f % a))
    out += [
        'rule r{reactant a{C labeled c1} reactant b{C labeled c1} form bond '
        '(c1,c1)}',
        'rule r{reactant a{C labeled c1} reactant b{O labeled o1} form bond '
        '(c1,o1) increase number of radical (c1)}',
        'rule r{reactant a{C labeled c1} reactant a{O labeled o1} form bond '
        '(c1,o1)}',
        'rule r{positive reactant a{C+ labeled c1} decrease formal charge '
        '(c1)}',
        'rule r{reactant a{c labeled c1 c labeled c2 aromatic bond to c1} '
        'break aromatic bond (c1,c2)}',
        'rule r{reactant a{C labeled c1 C labeled c2 partial bond to c1} '
        'break partial bond (c1,c2)}',
        'rule r{reactant a{C labeled c1 C labeled c2 quadruple bond to c1} '
        'increase bond order (c1,c2)}',
    ]
    return out


def stereo_statement_probes():
    """Every assignment of the four label slots of a stereo statement from
    {substituents, the two double-bond atoms, a singly bonded pair, an
    undefined label} x stereo type x negation, on one fixed skeleton."""
    import itertools
    pat = ('fragment s{C labeled a1 C labeled c1 single bond to a1 C labeled '
           'c2 double bond to c1 C labeled b1 single bond to c2 C labeled b2 '
           'single bond to c2 ')
    labels = ['a1', 'b1', 'b2', 'c1', 'c2', 'zz']
    out = []
    for x, y, c, d in itertools.product(labels, repeat=4):
        for k, ty in enumerate(('cis', 'trans', 'notspecified', 'gauche')):
            if ty in ('notspecified', 'gauche') and (x, y) != ('a1', 'b1') \
                    and (c, d) != ('c1', 'c2'):
                continue
            neg = '!' if (labels.index(x) + labels.index(d) + k) % 3 == 0 \
                else ''
            out.append(pat + 'stereo double bond %s %s%s to %s for double '
                       'bond between %s and %s}' % (x, neg, ty, y, c, d))
    return out


def numeric_splice_probes():
    """Character-level hostility inside numerals: every digit of a few
    texts with numbers gets a non-ASCII digit-like character (superscript,
    subscript, circled, Arabic-Indic, fullwidth) spliced in before / after /
    instead of it; plus numerals of absurd length."""
    bases = [
        'fragment a{C labeled c1 {in ring of size 3}}',
        'fragment a{C labeled c1 {connected to >=12 H}}',
        'fragment a{C labeled c1 {in 2 ring}}',
        'fragment a{C labeled c1 {has 1 radical electrons}}',
        'rule r{reactant a{C labeled c1} modify number of radical (c1, 2) '
        'decrease number of radical (c1) decrease number of radical (c1)}',
        'rule r{reactant a{C labeled c10 H labeled h2 single bond to c10} '
        'break bond (c10,h2) increase number of radical (c10) increase '
        'number of radical (h2)}',
        # a huge count next to the fractional electron count of an aromatic
        # bond; the same huge count twice on one label
        'rule r{reactant a{C labeled c1 C labeled c2 single bond to c1} form '
        'aromatic bond (c1,c2) modify number of radical (c1, 2)}',
        'rule r{reactant a{C labeled c1} modify number of radical (c1, 3) '
        'modify number of radical (c1, 3)}',
        'rule r{reactant a{C: labeled c1 C labeled c2 aromatic bond to c1} '
        'break aromatic bond (c1,c2) modify number of radical (c1, 4)}',
    ]
    odd = ['\u00b2', '\u2082', '\u2460', '\u0663', '\uff13', '\u00bd', '\u2075',
           '\u0967']
    out = []
    for b in bases:
        for k, ch in enumerate(b):
            if ch.isdigit():
                for o in odd:
                    out.append(b[:k] + o + b[k:])
                    out.append(b[:k + 1] + o + b[k + 1:])
                    out.append(b[:k] + o + b[k + 1:])
        for n in (50, 310, 400, 640, 641, 700, 1000, 4299, 4300, 4301, 5000,
                  20000):
            for k, ch in enumerate(b):
                if ch.isdigit():
                    out.append(b[:k] + ch * n + b[k + 1:])
                    break
            # ... and on the LAST numeral of the text
            ks = [k for k, ch in enumerate(b) if ch.isdigit()]
            out.append(b[:ks[-1]] + '7' * n + b[ks[-1] + 1:])
            # ... and on EVERY numeral that is not part of a label
            for k in ks:
                if not b[k - 1].isalnum():
                    out.append(b[:k] + '7' * n + b[k + 1:])
    return out


def rule_name_identifier_probes():
    """Identifiers that coincide with the grammar's own rule names
    (ReactantName, AtomLabel, FragmentName, ...), as fragment / reactant /
    rule names and as labels, also in 'duplicates' and 'group' clauses, with
    later edits on the mapped labels."""
    names = ['ReactantName', 'AtomLabel', 'FragmentName', 'GroupName',
             'RuleName', 'LabelMapping', 'Symbols', 'AtomType', 'BondType',
             'Prefix', 'MolQuery', 'Fragment', 'ReactionRule', 'RINGInput',
             'Boolean', 'Number', 'r', 'X']
    out = []
    for n in names:
        out.append('fragment %s{C labeled c1}' % n)
        out.append('fragment a{C labeled %s O labeled o1 single bond to %s}'
                   % (n, n))
        out.append('rule %s{reactant %s{C labeled c1 H labeled h1 single '
                   'bond to c1} break bond (c1,h1) increase number of radical '
                   '(c1) increase number of radical (h1)}' % (n, n))
        for other in ('X', 'XY', 'second', n):
            for edit in ('increase number of radical (c2) decrease number of '
                         'radical (c2)', 'increase formal charge (c2)',
                         'modify atomtype (c2, C.)',
                         'decrease number of radical (c1)', ''):
                out.append('rule r{reactant %s{C labeled c1} reactant %s '
                           'duplicates %s (c1 => c2) %s}' % (n, other, n,
                                                             edit))
                out.append('rule r{reactant %s{C labeled c1} reactant %s '
                           'group %s (c1 => c2) %s}' % (n, other, n, edit))
    return out


def valid_corpus(ctx, rng, n):
    out = []
    for _ in range(n):
        if rng.random() < 0.7:
            ast = R.gen_fragment(rng, max_atoms=6)
            out.append(('generated fragment', R.render(ast, rng)))
        else:
            ast = X.gen_rule(rng, unbalanced=rng.random() < 0.3)
            out.append(('generated rule (%s)' % ast['kind'].split(' ')[0],
                        X.render_rule(ast, rng)))
    return out


def shipped_patterns():
    out = []
    for name in libs.LIBS:
        d = libs.scheme_yaml(name)
        for sec in ('patterns', 'other_descriptors'):
            for p in d.get(sec) or []:
                out.append(p['connectivity'])
    return out


def thread_texts(rng, n):
    out = []
    for kl, t in valid_corpus(None, rng, n):
        out.append(t)
        out.append(t[:rng.randint(1, max(1, len(t) - 1))])
        out.append(mutate(rng, t))
    out += [t for t in CURATED if len(t) < 400][:n]
    return list(dict.fromkeys(out))


def check_threads(ctx, texts=None, rounds=3):
    """Reading is a function of the text: several threads reading at once
    (the same texts, in different orders) must each get what a lone read
    gets -- the same query type, or the same RING error with the same
    message and position."""
    from vmon.core import threads as TH
    from pgradd.RINGParser import Read
    if texts is None:
        texts = thread_texts(ctx.sub_rng('c09thr', ctx.shard),
                             12 if ctx.tier == 'quick' else 60)

    def make_jobs():
        def job(t):
            def thunk():
                return type(Read(t)).__name__
            return thunk
        return [(t, job(t)) for t in texts]
    res = TH.stress(make_jobs, nthreads=4, rounds=rounds)
    bad = [m['key'] for m in res['mismatches']][:12]
    TH.judge(ctx, res, 'RING Read', {'what': 'thread stress',
                                     'texts': bad or texts[:3]})


def run_shard(ctx):
    setup()
    rng = ctx.sub_rng('c09', ctx.shard)
    q = ctx.tier == 'quick'
    if ctx.shard % 4 == 2:
        check_threads(ctx)
    # curated
    for i, t in enumerate(CURATED):
        if ctx.mine(i):
            check_text(ctx, t, 'curated')
            for k in range(len(t)):
                if k % 3 == i % 3 or len(t) < 80:
                    check_text(ctx, t[:k], 'prefix of curated')
    # shipped patterns: valid, and every 7th prefix
    for i, t in enumerate(shipped_patterns()):
        if ctx.mine(i):
            check_text(ctx, t, 'shipped pattern', valid=True)
            if i % (8 if q else 1) == 0:
                for k in range(0, len(t), 1 if not q else 3):
                    check_text(ctx, t[:k], 'prefix of shipped pattern')
    # generated corpus
    corpus = valid_corpus(ctx, rng, 90 if q else 1500)
    for j, (kl, t) in enumerate(corpus):
        res = check_text(ctx, t, kl, valid=True)
        if j < 3:
            ctx.sample({'class': kl, 'text': t, 'outcome': res})
        step = 1 if (not q or j % 6 == 0) else 5
        for k in range(0, len(t), step):
            check_text(ctx, t[:k], 'prefix of ' + kl.split(' (')[0])
        for _ in range(8 if q else 40):
            check_text(ctx, mutate(rng, t), 'mutation of ' +
                       kl.split(' (')[0])
        t2 = mutate(rng, mutate(rng, t))
        check_text(ctx, t2, 'double mutation')
        check_text(ctx, t.replace('\n', '\r\n'), 'CRLF line ends')
    for i, t in enumerate(rule_edit_probes()):
        if ctx.mine(i):
            check_text(ctx, t, 'systematic rule-edit probe')
    for i, t in enumerate(numeric_splice_probes()):
        if ctx.mine(i):
            check_text(ctx, t, 'numeral with a non-ASCII digit / of absurd '
                               'length')
    for i, t in enumerate(rule_name_identifier_probes()):
        if ctx.mine(i):
            check_text(ctx, t, 'grammar rule names as identifiers')
    sp = stereo_statement_probes()
    for i, t in enumerate(sp):
        if ctx.mine(i) and (not q or i % 3 == ctx.seed % 3):
            check_text(ctx, t, 'systematic stereo-statement probe')
    for _ in range(300 if q else 20000):
        check_text(ctx, random_text(rng), 'random text')
    sizes = [50, 120, 150, 200, 300, 400]
    for i, n in enumerate(sizes):
        if ctx.mine(i):
            for kl, t in deep_texts(rng, n):
                check_text(ctx, t, kl, valid=True)


def replay(ctx, case):
    setup()
    if case.get('what') == 'thread stress':
        pool = thread_texts(ctx.sub_rng('c09thr', 0), 12)
        return check_threads(ctx, list(dict.fromkeys(
            list(case.get('texts') or []) + pool)), rounds=12)
    check_text(ctx, case['text'], case.get('klass', 'replay'))


def classify(v):
    if v['sig'] == 'Read escaped with RecursionError (deep input)':
        return 'deep-input-recursion'
    return None


LEVEL_TEXT = ('Held on every executed text: the valid corpus (generated '
              'fragments/rules, all shipped patterns), all or sampled '
              'character prefixes, token-level mutations, curated hostile '
              'inputs, random printable/Unicode text and deep inputs, each '
              'read under a logical-step budget with the outcome class, '
              'error position and consumed length checked. Exploration of an '
              'infinite input space.')
