"""C15 -- results do not depend on what the library object did before.

Monitor kind: history vs fresh-process reference.  Random histories of
{load, decompose, estimate from ANY earlier decomposition, evaluate (with and
without the elemental reference), merge into a scratch library, build a scheme
from includes} are executed in one process; every logged value carries the ids
of the library object and decomposition it belongs to and is compared with the
same atomic computation done in a fresh interpreter; a state hash of every
live library is taken before and after every operation.
"""
import json
import os
import random

from rdkit import Chem
import subprocess
import sys

import numpy as np

from vmon.core.obs import observe, close
from vmon.core import libs, digests
from vmon.gen import molecules

TECHNIQUE = ('runtime monitoring: recorded operation histories checked '
             'offline against single-operation runs in a fresh interpreter; '
             'state-hash monitor of every live library around every '
             'operation')
RULE = ('random histories of length 2-40 over 2-4 library objects (incl. two '
        'objects of the same database, never-used objects, default-'
        'constructed GroupLibrary / GroupAdditivityScheme objects) and 4-10 '
        'molecules; operations {load, decompose, estimate from any earlier '
        'decomposition, evaluate Cp/H/S/G with/without S_elements and the three standard errors, merge into '
        'a scratch library, scheme built from includes}; biased towards '
        'interleaved decompositions before an estimate. Non-trivial = a '
        'history in which >=3 values were compared with the fresh-process '
        'table and every operation was bracketed by state hashes; distinct by '
        'history.'
        ' Decomposition input forms: SMILES text, a fresh Mol, ONE Mol '
        'object (without / with explicit H) shared by all such steps of a '
        'history; fresh-process reference computed for the same form. '
        ' '
        'Rounds 18-19: foreign-subsystem steps (network generation, RING'
        ' reading / matching / rule application, units, yaml_format, group'
        ' parsing) inside histories; steps run in a worker thread; values'
        ' read from copies / pickles of estimates; a 45-carbon chain and a'
        ' 25+26-atom mixture in the pools; clone agreement of every estimate'
        ' at the end of a history.')
ASSUMPTIONS = [
    'environment variables are constant within a history (the data-directory '
    'cache is process-wide by design)',
    'fresh reference: one freshly loaded library object per (database, '
    'molecule) and one fresh estimate per value, in a fresh interpreter; a '
    'sample is recomputed with a fresh library object per single value',
]
CONFIG = {
    'shards': {'quick': 16, 'thorough': 16},
    'min_nontrivial': {'quick': 60, 'thorough': 1000},
    'timeout': {'quick': 1500, 'thorough': 14400},
    'required_counters': ['values_compared_with_fresh_process',
                          'state_hash_brackets', 'estimates_from_old_'
                          'decompositions'],
}
ANCHORS = [
    'pgradd.GroupAdd.Library:GroupLibrary.GetDescriptors',
    'pgradd.GroupAdd.Library:GroupLibrary.Estimate',
    'pgradd.GroupAdd.Library:GroupLibrary.Update',
    'pgradd.GroupAdd.Library:GroupLibrary._do_load',
    'pgradd.GroupAdd.Scheme:GroupAdditivityScheme.Load',
    'pgradd.GroupAdd.Scheme:GroupAdditivityScheme.__init__',
    'pgradd.ThermoChem.group_data:ThermochemGroupAdditive.__init__',
    'pgradd.ThermoChem.group_data:ThermochemGroupAdditive.get_Selements',
]
ROOT = os.path.dirname(os.path.dirname(os.path.dirname(os.path.abspath(
    __file__))))
PROPS = ['get_CpoR', 'get_HoRT', 'get_SoR', 'get_GoRT']


def fast_state(lib):
    """Cheap deep state hash of a library object (contents, correlation
    fields, scheme tables, UQ block)."""
    acc = []
    for g in lib:
        ent = lib[g]
        if 'thermochem' in ent:
            c = ent['thermochem']
            cp = c.ND_Cp_data or {}
            acc.append((str(g), c.ND_H_ref, c.ND_S_ref, c.T_ref,
                        tuple(c.get_range() or ()),
                        tuple(sorted((float(t), float(v))
                                     for t, v in cp.items()))))
        else:
            acc.append((str(g), None))
    sch = lib.scheme
    st = [hash(tuple(sorted(map(repr, acc))))]
    if sch is not None:
        st.append((len(sch.patterns), len(sch.other_descriptors),
                   hash(tuple(sorted((k, repr(v))
                                     for k, v in sch.remaps.items()))),
                   tuple(id(p.get('connectivity')) for p in sch.patterns),
                   tuple(p.get('center_name') for p in sch.patterns),
                   tuple(p.get('name') for p in sch.other_descriptors),
                   len(sch.smiles_based_descriptors),
                   len(sch.smarts_based_descriptors),
                   len(sch.pretreatment_rules)))
    uq = getattr(lib, 'uq_contents', None)
    if uq:
        st.append((tuple(str(d) for d in uq['descriptors']),
                   hash(np.asarray(uq['mat'], dtype=float).tobytes()),
                   repr(uq['dof'])))
    return hash(tuple(map(repr, st)))


def fresh_table(keys, digest_libs, strict=False):
    req = {'keys': keys, 'digests': digest_libs, 'strict': strict}
    p = subprocess.run([sys.executable, '-X', 'faulthandler', '-W', 'ignore',
                        '-m', 'vmon.core.fresh_child'], cwd=ROOT,
                       input=json.dumps(req), capture_output=True, text=True,
                       timeout=1200)
    if '@@REPORT@@' not in p.stdout:
        raise RuntimeError('fresh child failed: %s' % p.stderr[-800:])
    return json.loads(p.stdout.split('@@REPORT@@')[1].strip())


# --------------------------------------------------------------- history
def gen_history(rng, pools):
    """A history is a list of op dicts; ids are assigned at generation."""
    names = rng.sample(libs.LIBS, rng.randint(1, 3))
    if rng.random() < 0.6:
        names.append(names[0])              # two objects of one database
    ops = []
    objs = []                                # (obj id, database name)
    decs = []                                # (dec id, obj id, db, smiles)
    ests = []                                # (est id, dec id)
    mols = {}
    for n in set(names):
        mols[n] = rng.sample(pools[n], min(len(pools[n]), rng.randint(3, 6)))
        if rng.random() < 0.6:
            mols[n] += rng.sample(pools[n][:7], 3)    # homologs
        if rng.random() < 0.25:
            # a molecule / a mixture with more than 1000 atom-level matches
            # of the smallest patterns (caps, limits left behind by other
            # work in the process)
            mols[n].append(rng.choice(['C' * 45, 'C' * 25 + '.' + 'C' * 25
                                       + 'O']))
    for n in names:
        objs.append((len(objs), n))
        ops.append({'op': 'load', 'obj': objs[-1][0], 'db': n,
                    'how': rng.choice(['name', 'name', 'relpath'])})
    length = rng.randint(2, 40)
    while len(ops) < length + len(names):
        r = rng.random()
        if r < 0.34 or not decs:
            o, n = rng.choice(objs)
            smi = rng.choice(mols[n])
            # input form: SMILES text, a fresh Mol object, or ONE Mol object
            # (without / with explicit H) shared by every such step of the
            # history, whichever library object receives it
            form = rng.choice(['smiles'] * 6 + ['mol', 'mol_shared',
                                                'mol_shared', 'molH_shared'])
            arg = {'smiles': smi, 'mol': 'mol:' + smi,
                   'mol_shared': 'mol:' + smi,
                   'molH_shared': 'molH:' + smi}[form]
            decs.append((len(decs), o, n, smi, arg))
            ops.append({'op': 'decompose', 'dec': decs[-1][0], 'obj': o,
                        'db': n, 'smiles': smi, 'form': form, 'arg': arg})
            if rng.random() < 0.2:
                ops[-1]['via'] = 'worker'
            if rng.random() < 0.12:
                ops.append({'op': 'foreign', 'what': rng.choice(FOREIGN)})
        elif r < 0.56:
            d = rng.choice(decs[-6:]) if rng.random() < 0.5 else \
                rng.choice(decs)
            # estimate with ANY object of the same database
            cands = [o for o, n in objs if n == d[2]]
            o = rng.choice(cands)
            ests.append((len(ests), d[0]))
            ops.append({'op': 'estimate', 'est': ests[-1][0], 'dec': d[0],
                        'obj': o, 'db': d[2], 'smiles': d[3], 'arg': d[4],
                        'latest_dec_of_obj': max(
                            [x[0] for x in decs if x[1] == o] or [-1])})
            if rng.random() < 0.2:
                ops[-1]['via'] = 'worker'
        elif r < 0.88 and ests:
            e = rng.choice(ests[-4:])
            db_of_est = [d for d in decs if d[0] == e[1]][0][2]
            if db_of_est in libs.UQ_LIBS and rng.random() < 0.35:
                # standard errors depend on the whole count vector
                ops.append({'op': 'eval', 'est': e[0],
                            'prop': rng.choice(['get_HoRT_SE', 'get_SoR_SE',
                                                'get_CpoR_SE']),
                            'T': rng.choice([300.0, 500.0, 750.0]),
                            's_el': False})
            else:
                ops.append({'op': 'eval', 'est': e[0],
                            'prop': rng.choice(PROPS),
                            'T': rng.choice([300.0, 500.0, 298.15, 750.0]),
                            's_el': rng.random() < 0.4})
            v_ = rng.random()
            if v_ < 0.55:
                ops[-1]['via'] = 'deepcopy' if v_ < 0.2 else \
                    'pickle' if v_ < 0.4 else 'worker'
        elif r < 0.94:
            o, n = rng.choice(objs)
            ops.append({'op': 'merge', 'src': o, 'db': n})
        elif r < 0.97:
            o, n = rng.choice(objs)
            ops.append({'op': 'scheme_include', 'src': o, 'db': n})
        else:
            n = rng.choice(list(set(names)))
            objs.append((len(objs), n))
            ops.append({'op': 'load', 'obj': objs[-1][0], 'db': n,
                        'how': rng.choice(['name', 'relpath'])})
    return ops


from vmon.core.foreign import FOREIGN, foreign_work  # noqa: E402


def needed_keys(ops):
    dec_of = {}
    est_of = {}
    keys = {}
    for op in ops:
        if op['op'] == 'decompose':
            dec_of[op['dec']] = (op['db'], op.get('arg', op['smiles']))
            keys.setdefault((op['db'], op.get('arg', op['smiles'])), set())
        elif op['op'] == 'estimate':
            est_of[op['est']] = dec_of[op['dec']]
        elif op['op'] == 'eval':
            db, smi = est_of[op['est']]
            keys[(db, smi)].add((op['prop'], op['T'], op['s_el']))
    return keys


def run_history(ctx, hid, ops, table):
    from pgradd.GroupAdd.Library import GroupLibrary
    from pgradd.GroupAdd.Scheme import GroupAdditivityScheme
    case = {'history': hid, 'ops': ops}
    objs, decs, ests = {}, {}, {}
    shared_mols = {}
    est_meta = {}
    states = {}
    compared = 0

    def all_states():
        return {k: fast_state(v) for k, v in objs.items()}

    def digest_check(step, op, before, allowed=()):
        after = all_states()
        for k in before:
            if k not in allowed and before[k] != after.get(k):
                ctx.violation('operation %r changed the data of a library '
                              'object' % op['op'], case,
                              {'step': step, 'op': op, 'object': k})
                return False
        ctx.count('state_hash_brackets')
        return True

    for step, op in enumerate(ops):
        before = all_states()
        kind = op['op']
        if kind == 'load':
            if op.get('how') == 'relpath':
                # './library.yaml' from inside the database's directory: the
                # same spelling names another database a few steps later
                cwd = os.getcwd()
                try:
                    os.chdir(os.path.join(libs.data_dir(), op['db']))
                    o = observe(libs.fresh, os.path.join('.', 'library.yaml'))
                finally:
                    os.chdir(cwd)
                ctx.count('loads_by_relative_path')
            else:
                o = observe(libs.fresh, op['db'])
            ctx.evals()
            if 'exc' in o:
                ctx.violation('load raised %s inside a history' % o['exc'],
                              case, {'step': step, 'msg': o['msg']})
                return
            objs[op['obj']] = o['ok']
            fd = table['digests'].get(op['db'])
            if fd and digests.library_digest(o['ok']) != fd:
                ctx.violation('contents of a library loaded inside a history '
                              'differ from a fresh process', case,
                              {'step': step, 'db': op['db']})
                return
            ctx.count('loads_compared_with_fresh_digest')
        elif kind == 'decompose':
            lib = objs[op['obj']]
            form = op.get('form', 'smiles')
            if form == 'smiles':
                arg = op['smiles']
            elif form == 'mol':
                arg = Chem.MolFromSmiles(op['smiles'])
            else:
                if (form, op['smiles']) not in shared_mols:
                    m_ = Chem.MolFromSmiles(op['smiles'])
                    shared_mols[(form, op['smiles'])] = \
                        Chem.AddHs(m_) if form == 'molH_shared' else m_
                arg = shared_mols[(form, op['smiles'])]
                ctx.count('decompositions_of_a_shared_mol_object')
            if op.get('via') == 'worker':
                from vmon.core.threads import in_worker
                o = observe(in_worker, lib.GetDescriptors, arg)
                ctx.count('history_steps_run_in_the_worker_thread')
            else:
                o = observe(lib.GetDescriptors, arg)
            ctx.evals()
            fresh = table['descriptors']['%s|%s' % (
                op['db'], op.get('arg', op['smiles']))]
            if 'exc' in o:
                decs[op['dec']] = None
                if fresh.get('exc') != o['exc']:
                    ctx.violation('decomposition outcome differs from a fresh '
                                  'process', case,
                                  {'step': step, 'here': o['exc'],
                                   'fresh': fresh})
                    return
            else:
                got = {str(k): float(v) for k, v in dict(o['ok']).items()}
                decs[op['dec']] = o['ok']
                if step % 3 == 0:
                    # the user keeps a copy and scribbles on the mapping that
                    # was returned: nothing later may depend on it
                    import copy as _copy
                    decs[op['dec']] = _copy.copy(o['ok'])
                    try:
                        for k_ in list(o['ok']):
                            o['ok'][k_] = o['ok'][k_] * 5 + 2
                        o['ok']['scribble'] = 7
                    except Exception:
                        pass
                    ctx.count('returned_mappings_scribbled_on')
                if 'ok' not in fresh or any(
                        abs(got.get(k, 0) - fresh['ok'].get(k, 0)) > 1e-12
                        for k in set(got) | set(fresh['ok'])):
                    ctx.violation('descriptors differ from a fresh process',
                                  case, {'step': step, 'here': got,
                                         'fresh': fresh})
                    return
            compared += 1
        elif kind == 'estimate':
            d = decs.get(op['dec'])
            if d is None:
                ests[op['est']] = None
                continue
            lib = objs[op['obj']]
            if op.get('via') == 'worker':
                from vmon.core.threads import in_worker
                o = observe(in_worker, lib.Estimate, d, 'thermochem')
                ctx.count('history_steps_run_in_the_worker_thread')
            else:
                o = observe(lib.Estimate, d, 'thermochem')
            ctx.evals()
            ests[op['est']] = o.get('ok')
            est_meta[op['est']] = op
            if op['latest_dec_of_obj'] != op['dec']:
                ctx.count('estimates_from_old_decompositions')
        elif kind == 'eval':
            e = ests.get(op['est'])
            if e is None:
                continue
            meta = est_meta[op['est']]
            kw = {'S_elements': True} if op['s_el'] else {}
            via = op.get('via')
            if via in ('deepcopy', 'pickle'):
                # the value is read from a copy / an unpickled copy of the
                # estimate, which is dropped again at once (its memory is
                # free for the next one): still the fresh-process value
                import copy as _copy
                import pickle as _pickle
                try:
                    e = _copy.deepcopy(e) if via == 'deepcopy' else \
                        _pickle.loads(_pickle.dumps(e))
                    ctx.count('values_read_from_a_clone_of_the_estimate')
                except Exception as exc:
                    ctx.skip('estimate cannot be cloned by %s (%s)' % (
                        via, type(exc).__name__))
            if via == 'worker':
                from vmon.core.threads import in_worker
                o = observe(in_worker, getattr(e, op['prop']), op['T'], **kw)
                ctx.count('history_steps_run_in_the_worker_thread')
            else:
                o = observe(getattr(e, op['prop']), op['T'], **kw)
            ctx.evals()
            key = '%s|%s|%s|%r|%r' % (meta['db'],
                                      meta.get('arg', meta['smiles']),
                                      op['prop'], op['T'], op['s_el'])
            fresh = table['values'].get(key)
            if fresh is None:
                continue
            stale = meta['latest_dec_of_obj'] != meta['dec']
            if ('exc' in o) != ('exc' in fresh) or (
                    'exc' in o and o['exc'] != fresh['exc']):
                ctx.violation('evaluation outcome differs from a fresh '
                              'process%s' % (' [S_elements]' if op['s_el']
                                             else ''), case,
                              {'step': step, 'op': op, 'estimate': meta,
                               'here': o.get('exc', o.get('ok')),
                               'fresh': fresh,
                               's_el': op['s_el'], 'stale_estimate': stale})
                return
            if 'ok' in o and not close(o['ok'], fresh['ok'], rel=1e-12,
                                       abs_=1e-12):
                ctx.violation('value differs from a fresh process%s' % (
                    ' [S_elements only, estimate made after another '
                    'molecule was decomposed with the same library object]'
                    if op['s_el'] and stale else (' [S_elements]'
                                                  if op['s_el'] else '')),
                    case, {'step': step, 'op': op, 'estimate': meta,
                           'here': float(o['ok']), 'fresh': fresh['ok'],
                           's_el': op['s_el'], 'stale_estimate': stale,
                           'molecule_of_estimate': meta['smiles'],
                           'difference': float(o['ok']) - fresh['ok']})
                return
            compared += 1
            ctx.count('values_compared_with_fresh_process')
        elif kind == 'merge':
            src = objs[op['src']]
            target = GroupLibrary(src.scheme)
            o = observe(target.Update, src)
            ctx.evals()
            if 'exc' in o:
                ctx.violation('merge into a scratch library raised %s'
                              % o['exc'], case, {'step': step})
                return
            # merging other data for the same group into the scratch target
            # must not reach back into the source library (copy on merge)
            from pgradd.ThermoChem import ThermochemGroup
            for g in src:
                ent = src[g]
                if 'thermochem' in ent and ent['thermochem'].ND_H_ref \
                        is not None:
                    c = ent['thermochem']
                    pert = ThermochemGroup(
                        c.ND_H_ref + 1.0, c.ND_S_ref, dict(c.ND_Cp_data),
                        c.T_ref, c.get_range())
                    other = GroupLibrary(src.scheme, {g: {'thermochem':
                                                          pert}})
                    o2 = observe(target.Update, other, True)
                    if 'exc' in o2:
                        ctx.violation('overwrite-merge into a scratch '
                                      'library raised %s' % o2['exc'], case,
                                      {'step': step, 'group': str(g)})
                        return
                    ctx.count('overwrite_merges_after_copy')
                    break
            # a default-constructed library must start empty every time
            probe = GroupLibrary(src.scheme)
            if len(probe) != 0 or probe.uq_contents:
                ctx.violation('a default-constructed GroupLibrary is not '
                              'empty after earlier merges', case,
                              {'step': step, 'len': len(probe)})
                return
            ctx.count('merges')
        elif kind == 'foreign':
            # work in ANOTHER part of the package between the steps (its
            # results are other properties' business; here only: nothing
            # that follows may notice)
            fo = observe(foreign_work, op['what'])
            ctx.evals()
            if 'exc' in fo:
                ctx.skip('foreign work %r raised %s' % (op['what'],
                                                        fo['exc']))
            ctx.count('foreign_subsystem_steps')
            ctx.klass('foreign step: ' + op['what'])
        elif kind == 'scheme_include':
            src = objs[op['src']]
            n0 = (len(src.scheme.patterns), len(src.scheme.other_descriptors),
                  len(src.scheme.remaps))
            o = observe(GroupAdditivityScheme, include=[src.scheme])
            ctx.evals()
            probe = GroupAdditivityScheme()
            if len(probe.patterns) or len(probe.other_descriptors) or \
                    len(probe.remaps):
                ctx.violation('a default-constructed GroupAdditivityScheme '
                              'is not empty after earlier includes', case,
                              {'step': step, 'patterns': len(probe.patterns),
                               'remaps': len(probe.remaps)})
                return
            if 'ok' in o and (len(o['ok'].patterns),
                              len(o['ok'].other_descriptors),
                              len(o['ok'].remaps)) != n0:
                ctx.violation('scheme built from an include differs from the '
                              'included scheme (history dependent)', case,
                              {'step': step, 'built': [
                                  len(o['ok'].patterns),
                                  len(o['ok'].other_descriptors),
                                  len(o['ok'].remaps)], 'included': n0})
                return
            ctx.count('scheme_includes')
        if not digest_check(step, op, before):
            return
    # at the end of the history: every estimate it made against its own
    # copies / unpickled copies (made and dropped one after the other, so
    # that their memory is re-used by the next)
    from vmon.core import clones
    for k_, e_ in list(ests.items())[:8]:
        if e_ is None:
            continue
        if not clones.agreement(ctx, dict(case, estimate=k_), e_, [
                ('%s(%r)' % (nm, T_), lambda x, nm=nm, T_=T_: repr(float(
                    getattr(x, nm)(T_))))
                for nm in ('get_SoR', 'get_GoRT', 'get_HoRT')
                for T_ in (300.0, 500.0)], 'estimate made in a history',
                'after'):
            break
    if compared >= 3:
        ctx.nontrivial(['hist', hid])
        ctx.klass('history length %s' % ('<=10' if len(ops) <= 10 else
                                         '11-25' if len(ops) <= 25 else
                                         '>25'))
        if ctx.rng.random() < 0.3:
            ctx.sample({'history': hid, 'length': len(ops),
                        'values_compared': compared,
                        'ops': [o['op'] for o in ops][:30]})


def pools(ctx):
    out = {}
    for n in libs.LIBS:
        pl = molecules.pool(ctx.seed, n_random=10, n_ads=10,
                            metal=libs.METAL.get(n, 'Pt'),
                            nitrogen=n in ('BensonGA', 'PPY'), max_heavy=8)
        pl = [s for s in pl if molecules.heavy_atoms(s) <= 8 and
              'c' not in s.replace('[Pt]', '')]
        r = random.Random('c15pool:%s:%s' % (ctx.seed, n))
        # homologous series: same descriptor keys, different counts (a cache
        # keyed by the key set would show here)
        homologs = ['CCC', 'CCCC', 'CCCCC', 'CCCCCC', 'CCCO', 'CCCCO',
                    'CCCCCO', 'CC(C)C', 'CC(C)CC(C)C']
        out[n] = homologs + r.sample(pl, 31)
    return out


def check_estimate_across_merge(ctx, db, smi):
    """An estimate that outlives an overwriting merge INTO ITS OWN library is
    either a snapshot (all values as before the merge) or a live view (all
    values as a new estimate of the merged library) -- never a mixture of
    the two, and the same whether or not it was evaluated before."""
    case = {'probe': 'estimate across merge', 'db': db, 'smiles': smi}
    props = ('get_CpoR', 'get_HoRT', 'get_SoR', 'get_GoRT')
    try:
        lib = libs.fresh(db)
        d = lib.GetDescriptors(smi)
        est_warm = lib.Estimate(d, 'thermochem')
        est_cold = lib.Estimate(d, 'thermochem')
        T = 500.0
        r = est_warm.get_range()
        if r is not None:
            T = min(max(T, r[0]), r[1])
        pre = tuple(repr(observe(getattr(est_warm, p), T).get('ok'))
                    for p in props)
        if 'None' in pre:
            ctx.skip('estimate across merge: molecule lacks data')
            return
        lib2 = libs.fresh(db)
        changed = 0
        for g in d:
            ent = lib2[g]
            c2 = ent.get('thermochem') if hasattr(ent, 'get') else None
            if c2 is None or c2.ND_H_ref is None or c2.ND_S_ref is None:
                continue
            c2.update(type(c2)(c2.ND_H_ref + 1.5, c2.ND_S_ref + 0.75, {},
                               c2.T_ref, c2.get_range()), overwrite=True)
            changed += 1
        if not changed:
            return
        lib.Update(lib2, overwrite=True)
        new = lib.Estimate(d, 'thermochem')
        post_new = tuple(repr(observe(getattr(new, p), T).get('ok'))
                         for p in props)
        for lab, e in (('evaluated before the merge', est_warm),
                       ('never evaluated before the merge', est_cold)):
            post = tuple(repr(observe(getattr(e, p), T).get('ok'))
                         for p in props)
            ctx.evals(4)
            if post != pre and post != post_new:
                ctx.violation('an estimate that outlived an overwriting merge '
                              'into its library mixes old and new data',
                              dict(case, estimate=lab),
                              {'before': pre, 'after': post,
                               'new_estimate': post_new})
                return
        if post_new == pre:
            ctx.violation('an overwriting merge did not change a new '
                          'estimate', case, {'values': pre})
            return
        ctx.count('estimates_followed_across_an_overwriting_merge')
    except Exception as exc:
        ctx.skip('estimate across merge: %s' % type(exc).__name__)


def run_shard(ctx):
    pl = pools(ctx)
    for k, db in enumerate(libs.LIBS):
        if (k + ctx.shard) % 4 == 0:
            for smi in ('CCCO', 'CC(C)CC(C)C'):
                check_estimate_across_merge(ctx, db, smi)
    nh = 7 if ctx.tier == 'quick' else 90
    hists = []
    for k in range(nh):
        hid = 'h%d_%d_%d' % (ctx.seed, ctx.shard, k)
        r = random.Random('c15:%s' % hid)
        hists.append((hid, gen_history(r, pl)))
    keys = {}
    dbs = set()
    for _, ops in hists:
        for k, v in needed_keys(ops).items():
            keys.setdefault(k, set()).update(v)
        dbs.update(op['db'] for op in ops if op['op'] == 'load')
    req = [[db, smi, sorted(map(list, ev))] for (db, smi), ev in
           sorted(keys.items())]
    table = fresh_table(req, sorted(dbs))
    ctx.count('fresh_process_atomic_results', len(table['values']) +
              len(table['descriptors']))
    # a sample recomputed with a fresh library object per single value
    strict_req = [x for x in req if x[2]][:3]
    if strict_req:
        t2 = fresh_table([[a, b, c[:2]] for a, b, c in strict_req], [],
                         strict=True)
        for k, v in t2['values'].items():
            if table['values'].get(k) != v:
                ctx.violation('fresh-process reference itself depends on the '
                              'batching', {'key': k},
                              {'batched': table['values'].get(k),
                               'single': v})
            ctx.count('strict_single_value_references')
    for hid, ops in hists:
        run_history(ctx, hid, ops, table)


def replay(ctx, case):
    ops = case['ops']
    keys = needed_keys(ops)
    req = [[db, smi, sorted(map(list, ev))] for (db, smi), ev in
           sorted(keys.items())]
    table = fresh_table(req, sorted(set(op['db'] for op in ops
                                        if op['op'] == 'load')))
    run_history(ctx, case['history'], ops, table)


def classify(v):
    """Known finding (DESIGN section 3, #21): an estimate copies the library
    object's 'name' (the molecule decomposed LAST with that object) at
    construction, so S_elements=True uses the atoms of another molecule when
    the estimate is made from an older decomposition.  Instance test: the
    difference occurs only with S_elements=True, on an estimate made after a
    later decomposition with the same object, and equals the difference of
    the two molecules' elemental sums."""
    d = v.get('detail', {})
    if not (d.get('s_el') and d.get('stale_estimate')):
        return None
    if d.get('here') == 'TypeError' and \
            d.get('estimate', {}).get('latest_dec_of_obj') == -1:
        # the object never decomposed anything: its molecule name is None and
        # the elemental sum fails on it before anything else is looked at
        # (whatever a fresh process returns or raises for this molecule)
        return 'selements-uses-last-decomposed-molecule'
    try:
        from vmon.props.c07 import elemental_sum
        meta = d['estimate']
        ops = v['case']['ops']
        last = None
        est_step = None
        for i, op in enumerate(ops):
            if op.get('op') == 'estimate' and op.get('est') == meta['est']:
                est_step = i
                break
        for op in ops[:est_step]:
            if op.get('op') == 'decompose' and op.get('obj') == meta['obj']:
                last = op['smiles']
        if last is None or 'difference' not in d:
            return None
        want = elemental_sum(meta['smiles']) - elemental_sum(last)
        sign = 1.0 if d['op']['prop'] == 'get_SoR' else -1.0
        if abs(d['difference'] - sign * want) <= 1e-9 * (abs(want) + 1):
            return 'selements-uses-last-decomposed-molecule'
    except Exception:
        return None
    return None


LEVEL_TEXT = ('Held on every executed history (modulo the listed known '
              'finding): random operation histories over several library '
              'objects are replayed in one process and every logged '
              'descriptor mapping and property value is compared with the '
              'same atomic computation in a fresh interpreter; a state hash '
              'of every live library brackets every operation. Exploration '
              'over histories.')
