"""C07 -- dimensional results are the non-dimensional ones times R (and T).

Monitor kind: relational oracle between observed getters of one object
(dimensional vs non-dimensional, unit vs unit) + reference model for the
elemental entropy sum (harness's own RDKit parse and pmutt table lookup).
"""
import math

import numpy as np

from vmon.core.obs import observe, is_plain_number, close
from vmon.core import libs
from vmon.gen import molecules

TECHNIQUE = ('runtime monitoring: relational oracle between observed '
             'dimensional and non-dimensional getters over all 16 unit keys; '
             'independent elemental-entropy sum as reference model')
RULE = ('all 16 unit keys of the gas-constant table x estimates of generated '
        'molecules (curated + random + adsorbates, decomposed immediately '
        'before) for the 9 shipped libraries and all single groups x 3 '
        'temperatures across the range; elemental clause for every '
        'decomposable molecule incl. adsorbates and multi-component species. '
        'Non-trivial = an object whose relations were all evaluated for all '
        '16 units; distinct by (library, molecule or group).'
        ' Argument forms: units positional and by keyword, T as float / int '
        '/ numpy scalar (a rotating quarter of the unit keys); S_elements '
        'omitted / None / False / 0 / True / 1. '
        ' '
        'Rounds 17-19: the two protocol steps handed between a worker'
        ' thread and the main thread; copies / pickles of molecule'
        ' estimates; all unit keys of shared objects from four threads.')
ASSUMPTIONS = [
    'pmutt.constants.R and S_elements are trusted third-party tables (the '
    'harness carries its own copy of the 16 R values and compares)',
    'relative tolerance 1e-12',
]
CONFIG = {
    'shards': {'quick': 16, 'thorough': 16},
    'min_nontrivial': {'quick': 500, 'thorough': 1200},
    'required_counters': ['elemental_clause_decided'],
}
ANCHORS = [
    'pgradd.ThermoChem.base:ThermochemBase.get_H',
    'pgradd.ThermoChem.base:ThermochemBase.get_G',
    'pgradd.ThermoChem.base:ThermochemBase.get_S',
    'pgradd.ThermoChem.base:ThermochemBase.get_Cp',
    'pgradd.ThermoChem.group_data:ThermochemGroupAdditive.get_Selements',
    'pgradd.ThermoChem.group_data:ThermochemGroupAdditive.get_SoR',
]
R_TABLE = {
    'J/mol/K': 8.3144598, 'kJ/mol/K': 8.3144598e-3,
    'L kPa/mol/K': 8.3144598, 'cm3 kPa/mol/K': 8.3144598e3,
    'm3 Pa/mol/K': 8.3144598, 'cm3 MPa/mol/K': 8.3144598,
    'm3 bar/mol/K': 8.3144598e-5, 'L bar/mol/K': 8.3144598e-2,
    'L torr/mol/K': 62.363577, 'cal/mol/K': 1.9872036,
    'kcal/mol/K': 1.9872036e-3, 'L atm/mol/K': 0.082057338,
    'cm3 atm/mol/K': 82.057338, 'eV/K': 8.6173303e-5,
    'Eh/K': 3.1668105e-06, 'Ha/K': 3.1668105e-06,
}
TOL = 1e-12


def _get(ctx, case, what, fn, *a, **kw):
    o = observe(fn, *a, **kw)
    ctx.evals()
    if 'exc' in o:
        return None, o
    v = o['ok']
    if not is_plain_number(v) or not math.isfinite(float(v)):
        ctx.violation('%s is not a finite plain number' % what, case,
                      {'value': repr(v), 'args': repr(a)})
        return None, None
    return float(v), None


def check_units(ctx, case, obj, T, is_estimate, s_el):
    """All unit relations on one object at one temperature.  Returns True if
    every relation was evaluated."""
    from pmutt import constants as pc
    nd = {}
    for name in ('get_CpoR', 'get_HoRT', 'get_SoR', 'get_GoRT'):
        v, err = _get(ctx, case, name, getattr(obj, name), T)
        if v is None:
            if err is not None and err['exc'] in ('IncompleteDataError',):
                continue
            if err is not None:
                ctx.violation('%s raised %s' % (name, err['exc']), case,
                              {'T': T, 'msg': err['msg']})
            continue
        nd[name] = v
    if len(nd) < 4:
        ctx.skip('object lacks one of Cp/H/S')
        return False
    done = True
    dims = {}
    for key, Rv in R_TABLE.items():
        try:
            if pc.R(key) != Rv:
                ctx.violation('pmutt R table differs from the harness copy',
                              case, {'key': key})
        except KeyError:
            ctx.violation('pmutt R table lacks key', case, {'key': key})
            continue
        eu = key[:-2]  # energy unit: the key minus its trailing '/K'
        H, e1 = _get(ctx, case, 'get_H', obj.get_H, T, eu)
        G, e2 = _get(ctx, case, 'get_G', obj.get_G, T, eu)
        S, e3 = _get(ctx, case, 'get_S', obj.get_S, T, key)
        Cp, e4 = _get(ctx, case, 'get_Cp', obj.get_Cp, T, key)
        for nm, e in (('get_H', e1), ('get_G', e2), ('get_S', e3),
                      ('get_Cp', e4)):
            if e is not None:
                ctx.violation('%s(%r) raised %s' % (nm, key, e['exc']), case,
                              {'T': T, 'msg': e['msg']})
        if None in (H, G, S, Cp):
            done = False
            continue
        dims[key] = (H, G, S, Cp)
        # the same calls with the arguments spelled differently: keyword
        # units, an integral / numpy-typed temperature
        alts = [('units= keyword', T, {'units': eu}, {'units': key})]
        if float(T) == int(T):
            alts.append(('int T', int(T), None, None))
        alts.append(('numpy T', np.float64(T), None, None))
        if (sum(map(ord, key)) + int(T * 10)) % 4 != 0:
            alts = []           # a rotating quarter of the unit keys
        for lab, TT, kwe, kwk in alts:
            if kwe is None:
                got4 = [_get(ctx, case, 'get_H', obj.get_H, TT, eu)[0],
                        _get(ctx, case, 'get_G', obj.get_G, TT, eu)[0],
                        _get(ctx, case, 'get_S', obj.get_S, TT, key)[0],
                        _get(ctx, case, 'get_Cp', obj.get_Cp, TT, key)[0]]
            else:
                got4 = [_get(ctx, case, 'get_H', obj.get_H, TT, **kwe)[0],
                        _get(ctx, case, 'get_G', obj.get_G, TT, **kwe)[0],
                        _get(ctx, case, 'get_S', obj.get_S, TT, **kwk)[0],
                        _get(ctx, case, 'get_Cp', obj.get_Cp, TT, **kwk)[0]]
            if None in got4 or any(
                    not close(a_, b_, rel=1e-12, abs_=0.0,
                              scale=abs(a_) + abs(b_))
                    for a_, b_ in zip(got4, [H, G, S, Cp])):
                ctx.violation('dimensional accessors depend on how the '
                              'arguments are spelled (%s)' % lab, case,
                              {'T': T, 'unit': key, 'plain': [H, G, S, Cp],
                               'alternative': got4})
                done = False
        checks = [
            ('H(T,u) != HoRT*T*R(u)', H, nd['get_HoRT'] * T * Rv),
            ('S(T,u) != SoR*R(u)', S, nd['get_SoR'] * Rv),
            ('Cp(T,u) != CpoR*R(u)', Cp, nd['get_CpoR'] * Rv),
        ]
        for sig, got, want in checks:
            if not close(got, want, rel=TOL, abs_=0.0,
                         scale=abs(want) + abs(got)):
                ctx.violation(sig, case, {'T': T, 'unit': key, 'got': got,
                                          'want': want})
                done = False
        sc = abs(H) + abs(T * S)
        if not close(G, H - T * S, rel=4 * TOL, abs_=0.0, scale=sc):
            ctx.violation('G(T,u) != H(T,u) - T*S(T,u)', case,
                          {'T': T, 'unit': key, 'G': G, 'H': H, 'S': S})
            done = False
        if is_estimate and s_el is not None:
            Se, e5 = _get(ctx, case, 'get_S(S_elements)', obj.get_S, T, key,
                          S_elements=True)
            Ge, e6 = _get(ctx, case, 'get_G(S_elements)', obj.get_G, T, eu,
                          S_elements=True)
            if Se is None or Ge is None:
                for e in (e5, e6):
                    if e is not None:
                        ctx.violation('get_S/get_G(S_elements=True) raised %s'
                                      % e['exc'], case, {'msg': e['msg']})
                done = False
                continue
            if not close(Se, (nd['get_SoR'] - s_el) * Rv, rel=4 * TOL,
                         abs_=0.0, scale=(abs(nd['get_SoR']) + s_el) * Rv):
                ctx.violation('S(T,u,S_elements) != (SoR - S_el)*R(u)', case,
                              {'unit': key, 'got': Se,
                               'want': (nd['get_SoR'] - s_el) * Rv})
                done = False
            if not close(Ge, H - T * Se, rel=4 * TOL, abs_=0.0,
                         scale=abs(H) + abs(T * Se)):
                ctx.violation('G(T,u,S_elements) != H - T*S(S_elements)',
                              case, {'unit': key, 'got': Ge,
                                     'want': H - T * Se})
                done = False
    # values in two units differ exactly by the ratio of the constants
    keys = sorted(dims)
    for a, b in zip(keys, keys[1:]):
        for i, nm in enumerate(('H', 'G', 'S', 'Cp')):
            x, y = dims[a][i], dims[b][i]
            if y != 0 and not close(x / y, R_TABLE[a] / R_TABLE[b],
                                    rel=8 * TOL, abs_=0.0):
                # G = H - T S may cancel: compare on the absolute scale
                sc = (abs(dims[a][0]) + abs(T * dims[a][2])) if nm == 'G' \
                    else abs(x)
                if not close(x, y * R_TABLE[a] / R_TABLE[b], rel=8 * TOL,
                             abs_=0.0, scale=sc):
                    ctx.violation('X(u1)/X(u2) != R(u1)/R(u2)', case,
                                  {'prop': nm, 'u1': a, 'u2': b, 'x1': x,
                                   'x2': y})
                    done = False
    return done and len(dims) == len(R_TABLE)


def elemental_sum(smiles):
    from rdkit import Chem
    from pmutt import constants as pc
    m = Chem.AddHs(Chem.MolFromSmiles(smiles))
    return math.fsum(pc.S_elements[a.GetAtomicNum()] for a in m.GetAtoms())


def temps_for(obj, rng):
    r = obj.get_range()
    if r is None:
        return [298.15]
    lo, hi = r
    return [lo, hi, rng.uniform(lo, hi)]


def check_molecule(ctx, case):
    lib = libs.get(case['lib'])
    smi = case['smiles']
    arg = smi
    if case.get('as_mol'):
        from rdkit import Chem
        arg = Chem.MolFromSmiles(smi)
    # hand-off: the two steps of the protocol run in different threads, one
    # after the other (a reused worker pool): "the molecule decomposed
    # immediately before the estimate" does not depend on who ran what
    from vmon.core.threads import in_worker
    ho = case.get('handoff')
    if ho == 'decompose in worker':
        d = observe(in_worker, lib.GetDescriptors, arg)
    else:
        d = observe(lib.GetDescriptors, arg)
    ctx.evals()
    if 'exc' in d:
        ctx.skip('molecule not decomposable by this scheme (%s)' % d['exc'])
        return
    if ho == 'estimate in worker':
        e = observe(in_worker, lib.Estimate, d['ok'], 'thermochem')
    else:
        e = observe(lib.Estimate, d['ok'], 'thermochem')
    if ho:
        ctx.count('protocol_steps_handed_between_threads')
        ctx.klass('hand-off: ' + ho)
    if 'exc' in e:
        ctx.skip('no estimate (%s)' % e['exc'])
        return
    est = e['ok']
    rng = ctx.sub_rng('c07', case['lib'], smi)
    want = elemental_sum(smi)
    ok = True
    for T in temps_for(est, rng):
        s0, e0 = _get(ctx, case, 'get_SoR', est.get_SoR, T)
        if s0 is None:
            ctx.skip('estimate lacks S (%s)' % (e0 or {}).get('exc'))
            return
        s1, e1 = _get(ctx, case, 'get_SoR(S_elements=True)', est.get_SoR, T,
                      S_elements=True)
        g0, _ = _get(ctx, case, 'get_GoRT', est.get_GoRT, T)
        g1, e2 = _get(ctx, case, 'get_GoRT(S_elements=True)', est.get_GoRT, T,
                      S_elements=True)
        if s1 is None or g1 is None or g0 is None:
            err = e1 or e2
            if err is not None:
                ctx.violation('S_elements=True raised %s%s' % (
                    err['exc'], ' [molecule object input]'
                    if case.get('as_mol') else ''), case, {'msg': err['msg']})
            return
        sc = abs(s0) + want
        if not close(s0 - s1, want, rel=1e-11, abs_=0.0, scale=sc):
            ctx.violation('SoR - SoR(S_elements) != sum of elemental '
                          'entropies over all atoms incl. H', case,
                          {'T': T, 'got': s0 - s1, 'want': want})
            ok = False
        if not close(g1 - g0, want, rel=1e-11, abs_=0.0,
                     scale=sc + abs(g0)):
            ctx.violation('GoRT(S_elements) - GoRT != elemental sum', case,
                          {'T': T, 'got': g1 - g0, 'want': want})
            ok = False
        # the request spelled in other ways: False / 0 / None do not ask for
        # the elemental reference, 1 does
        for lab, flag, ws, wg in (('False', False, s0, g0), ('0', 0, s0, g0),
                                  ('None', None, s0, g0), ('1', 1, s1, g1)):
            sv, _ = _get(ctx, case, 'get_SoR(S_elements=%s)' % lab,
                         est.get_SoR, T, S_elements=flag)
            gv, _ = _get(ctx, case, 'get_GoRT(S_elements=%s)' % lab,
                         est.get_GoRT, T, S_elements=flag)
            if sv is None or gv is None or sv != ws or gv != wg:
                ctx.violation('S_elements=%s does not mean "%s"' % (
                    lab, 'requested' if flag else 'not requested'), case,
                    {'T': T, 'SoR': sv, 'GoRT': gv, 'expected_SoR': ws,
                     'expected_GoRT': wg})
                ok = False
                break
        # the estimate keeps ITS molecule: decomposing another one with the
        # same library object afterwards must not move the elemental term
        if len(smi) % 3 == 0:
            other = 'OCC(C)O' if smi != 'OCC(C)O' else 'CCCCC'
            observe(lib.GetDescriptors, other)
            s2, _ = _get(ctx, case, 'get_SoR(S_elements=True) after another '
                         'decomposition', est.get_SoR, T, S_elements=True)
            observe(lib.GetDescriptors, arg if not case.get('as_mol')
                    else smi)
            if s2 != s1:
                ctx.violation('the elemental term of an estimate follows the '
                              'library\'s later decompositions', case,
                              {'T': T, 'before': s1, 'after': s2,
                               'other_molecule': other})
                ok = False
            else:
                ctx.count('estimates_re_evaluated_after_another_decomposition')
        ctx.count('elemental_clause_decided')
        if not check_units(ctx, case, est, T, True, want):
            ok = False
    if ok and case.get('as_mol'):
        # a molecule object DERIVED from the one just evaluated (copied and
        # grown by a methyl group): its elemental term is its own
        from rdkit import Chem
        try:
            rw = Chem.RWMol(arg)
            anchor = [a.GetIdx() for a in rw.GetAtoms()
                      if a.GetAtomicNum() == 6 and a.GetTotalNumHs() > 0]
            child = None
            if anchor:
                k = rw.AddAtom(Chem.Atom(6))
                rw.AddBond(anchor[0], k, Chem.BondType.SINGLE)
                child = rw.GetMol()
                # (no SanitizeMol here: an edited copy whose property cache
                # is merely updated keeps whatever was attached to the parent)
                child.UpdatePropertyCache(strict=False)
        except Exception:
            child = None
        if child is not None:
            csmi = Chem.MolToSmiles(child)
            d2 = observe(lib.GetDescriptors, child)
            e2 = observe(lib.Estimate, d2['ok'], 'thermochem') \
                if 'ok' in d2 else d2
            if 'ok' in e2:
                T = temps_for(e2['ok'], rng)[0]
                a0 = observe(e2['ok'].get_SoR, T)
                a1 = observe(e2['ok'].get_SoR, T, S_elements=True)
                ctx.evals(2)
                if 'ok' in a0 and 'ok' in a1:
                    wantc = elemental_sum(csmi)
                    if not close(a0['ok'] - a1['ok'], wantc, rel=1e-11,
                                 abs_=0.0, scale=abs(a0['ok']) + wantc):
                        ctx.violation('elemental term of a molecule object '
                                      'derived from an evaluated one is not '
                                      'its own', dict(case, child=csmi),
                                      {'T': T, 'got': a0['ok'] - a1['ok'],
                                       'want': wantc, 'parent_sum': want})
                        ok = False
                    else:
                        ctx.count('derived_molecule_objects_checked')
            observe(lib.GetDescriptors, smi)
    if ok and len(smi) % 3 == 0 and not case.get('revisit'):
        # copies / unpickled copies of the estimate give the same dimensional
        # values (elemental reference included: it travels with the estimate)
        from vmon.core import clones
        Tc = temps_for(est, rng)[0]
        keys = list(R_TABLE)
        k1, k2 = keys[len(smi) % len(keys)], keys[(len(smi) + 5) % len(keys)]
        calls = []
        for k_ in (k1, k2):
            calls += [
                ('get_S(%s, S_elements=True)' % k_, lambda e_, k_=k_: repr(
                    float(e_.get_S(Tc, k_, S_elements=True)))),
                ('get_G(%s, S_elements=True)' % k_, lambda e_, k_=k_: repr(
                    float(e_.get_G(Tc, k_[:-2], S_elements=True)))),
                ('get_H(%s)' % k_, lambda e_, k_=k_: repr(
                    float(e_.get_H(Tc, k_[:-2])))),
                ('get_Cp(%s)' % k_, lambda e_, k_=k_: repr(
                    float(e_.get_Cp(Tc, k_))))]
        clones.agreement(ctx, case, est, calls, 'molecule estimate', 'after')
    if ok:
        ctx.nontrivial(['mol', case['lib'], smi, bool(case.get('as_mol'))])
        ctx.klass('molecule estimates')
        if '.' in smi:
            ctx.klass('multi-component species')
        if any(x in smi for x in ('Pt', 'Ru')):
            ctx.klass('adsorbates')
        ctx.sample({'lib': case['lib'], 'smiles': smi,
                    'elemental_sum_S_over_R': want,
                    'descriptors': dict(d['ok'])})


def check_group(ctx, case):
    lib = libs.get(case['lib'])
    c = lib[case['group']]['thermochem']
    rng = ctx.sub_rng('c07g', case['lib'], case['group'])
    ok = True
    for T in temps_for(c, rng)[:2]:
        if not check_units(ctx, case, c, T, False, None):
            ok = False
    if ok:
        ctx.nontrivial(['group', case['lib'], case['group']])
        ctx.klass('single group correlations')


def check_threads(ctx, name=None, rounds=3):
    """A dimensional getter is a function of (object, T, units): shared group
    correlations and one shared estimate read by four threads at once, in all
    unit keys, give what they give a lone caller."""
    from vmon.core import threads as TH
    if name is None:
        name = libs.LIBS[(ctx.seed + ctx.shard // 4) % len(libs.LIBS)]
    lib = libs.fresh(name)
    r = ctx.sub_rng('c07thr', name)
    gs = [g for g in lib if 'thermochem' in lib[g]]
    objs = [('group %s' % g, lib[g]['thermochem'])
            for g in r.sample(gs, min(len(gs), 5))]
    pl = molecules.pool(ctx.seed, n_random=20, n_ads=20,
                        metal=libs.METAL.get(name, 'Pt'),
                        nitrogen=name in ('PPY', 'BensonGA'))
    for smi in r.sample(pl, min(len(pl), 12)):
        try:
            est = lib.Estimate(lib.GetDescriptors(smi), 'thermochem')
            objs.append(('estimate %s' % smi, est))
            break
        except Exception:
            continue
    keys = list(R_TABLE)

    def make_jobs():
        jobs = []
        for label, obj in objs:
            rg = obj.get_range()
            T = 0.5 * (rg[0] + rg[1]) if rg is not None else 298.15
            for k in keys:
                eu = k[:-2]
                for nm, unit in (('get_H', eu), ('get_G', eu), ('get_S', k),
                                 ('get_Cp', k)):
                    jobs.append(((label, nm, k), lambda f=getattr(obj, nm),
                                 T=T, u=unit: repr(float(f(T, u)))))
        return jobs
    res = TH.stress(make_jobs, nthreads=4, rounds=rounds)
    TH.judge(ctx, res, 'dimensional getters on shared objects',
             {'what': 'thread stress', 'lib': name})


def run_shard(ctx):
    if ctx.shard % 4 == 1:
        check_threads(ctx)
    i = 0
    nrand = 25 if ctx.tier == 'quick' else 250
    for name in libs.LIBS:
        pl = molecules.pool(ctx.seed, n_random=nrand, n_ads=nrand,
                            metal=libs.METAL.get(name, 'Pt'),
                            nitrogen=name in ('PPY', 'BensonGA'))
        r = ctx.sub_rng('pairs', name)
        pl = pl + ['%s.%s' % (r.choice(pl[:60]), r.choice(pl[:60]))
                   for _ in range(10)]
        # scale: 256 and more atoms of one element (C127H256, C140H282,
        # C260H522)
        pl = pl + ['C' * 127, 'C' * 140, 'C' * 260]
        if ctx.tier == 'quick':
            pl = [s for k, s in enumerate(pl) if k % 3 == ctx.seed % 3 or
                  k >= len(pl) - 10]
        seen = []
        for k, s in enumerate(pl):
            if ctx.mine(i):
                c_ = {'lib': name, 'smiles': s, 'as_mol': k % 5 == 3}
                if k % 4 == 1:
                    c_['handoff'] = 'decompose in worker'
                elif k % 4 == 2:
                    c_['handoff'] = 'estimate in worker'
                check_molecule(ctx, c_)
                # ... and a molecule this library object decomposed two
                # steps ago once more (A, B, A): "decomposed immediately
                # before the estimate" also when it is not the first time
                if len(seen) >= 2 and len(seen) % 3 == 0:
                    ctx.count('molecules_revisited')
                    check_molecule(ctx, {'lib': name, 'smiles': seen[-2],
                                         'as_mol': False, 'revisit': True})
                seen.append(s)
            i += 1
        lib = libs.get(name)
        for g in lib:
            if 'thermochem' in lib[g]:
                if ctx.mine(i):
                    check_group(ctx, {'lib': name, 'group': str(g)})
                i += 1


def replay(ctx, case):
    if case.get('what') == 'thread stress':
        return check_threads(ctx, case['lib'], rounds=10)
    if 'smiles' in case:
        check_molecule(ctx, case)
    else:
        check_group(ctx, case)


def classify(v):
    return None


LEVEL_TEXT = ('Held on every executed object: all 16 unit keys (exhaustive) x '
              'every single group of the nine libraries and sampled molecule '
              'estimates (incl. adsorbates, mixtures, molecule-object input) '
              'at the range ends and an interior temperature; the elemental '
              'term is recomputed by the harness from its own parse. '
              'Exploration over molecules, exhaustive over units and groups.')
