"""C04 -- a mixture's descriptors are the sum of its components'.

Monitor kind: relational oracle between real executions: GetDescriptors on
'A', 'B', 'A.B', 'B.A', 'A.A' and triples; estimates of the pair vs the sum of
the components' estimates (incl. the elemental-entropy reference).
"""
import collections

from rdkit import Chem

from vmon.core.obs import observe, close
from vmon.core import libs
from vmon.gen import molecules

TECHNIQUE = ('runtime monitoring: relational oracle between decompositions '
             'of components and of the disconnected species; additivity of '
             'estimated properties')
RULE = ('per shipped scheme a pool of generated molecules (quick ~45, '
        'thorough ~300; ring+chain, radical+closed shell, adsorbate+gas, '
        'decomposable+non-decomposable): ALL ordered pairs incl. self-pairs, '
        'plus random triples; for a sample each estimated property (Cp, H, S, '
        'G, S and G relative to the elements) of the pair vs the sum over the '
        'components. Non-trivial = a pair whose two components and whose '
        'joint species were all decomposed (or whose failure clause was '
        'decided); distinct by (scheme, A, B).'
        ' Argument forms: dotted SMILES text, a Mol of the dotted SMILES, '
        'CombineMols of the component Mols (object forms judged against '
        'components given as objects). '
        ' '
        'Round 18: pairs / triples of chains of 10-60 carbons (components'
        ' below, mixture above any saturation size), in processes that first'
        ' toured the rest of the package.'
        ' '
        'Round 20: unusual-ring components (ring alkyne / allene / radical,'
        ' small and medium rings) before and after ordinary ring components.')
ASSUMPTIONS = [
    'shipped schemes contain no molecule-level prefixes (scanned by C14); the '
    'statement is quantified over shipped schemes',
    'component sizes bounded (<= 12 heavy atoms) so that the joint molecule '
    'stays under the 10000-embedding cap',
]
CONFIG = {
    'extra_variants': [('rdkit-new-stereo-perception',
                        [{'RDK_USE_LEGACY_STEREO_PERCEPTION': '0'}])],
    'shards': {'quick': 16, 'thorough': 16},
    'min_nontrivial': {'quick': 8000, 'thorough': 200000},
    'timeout': {'quick': 1200, 'thorough': 14400},
    'required_counters': ['estimate_additivity_checked',
                          'failure_propagation_decided'],
}
ANCHORS = [
    'pgradd.GroupAdd.Scheme:GroupAdditivityScheme._AssignGroup',
    'pgradd.GroupAdd.Scheme:GroupAdditivityScheme._AssignDescriptor',
    'pgradd.RDkitWrapper.MolQuery:MolQuery.GetQueryMatches',
    'pgradd.ThermoChem.group_data:ThermochemGroupAdditive.get_Selements',
]
_single = {}


def decomp(lib, libname, smi):
    key = (libname, smi)
    if key not in _single:
        o = observe(lib.GetDescriptors, smi)
        if 'exc' in o:
            _single[key] = ('exc', o['exc'])
        else:
            _single[key] = ('ok', collections.Counter(
                {str(k): float(v) for k, v in dict(o['ok']).items()}))
    return _single[key]


def same(a, b):
    keys = set(a) | set(b)
    return all(abs(a.get(k, 0.0) - b.get(k, 0.0)) <= 1e-12 for k in keys)


def object_forms(ctx, lib, libname, parts, joint_smi, want, case):
    """The same mixture handed over as ONE RDKit object.  False if a
    violation was recorded."""
    from rdkit import Chem
    mols = [Chem.MolFromSmiles(p) for p in parts]
    comb = mols[0]
    for m_ in mols[1:]:
        comb = Chem.CombineMols(comb, m_)
    # (judged against the components given as objects too: whether a Mol
    # and its SMILES decompose alike is C03's question, not this one's)
    want_s = want
    want = collections.Counter()
    for m_ in mols:
        so = observe(lib.GetDescriptors, Chem.Mol(m_))
        if 'exc' in so:
            ctx.skip('a component given as Mol object raises (C03)')
            want = None
            break
        for k, v in dict(so['ok']).items():
            want[str(k)] += float(v)
    if want is None:
        return True
    if not same(want, want_s):
        ctx.count('components_decompose_differently_as_mol_objects (C03)')
    for lab, obj in (('Mol of the dotted SMILES',
                      Chem.MolFromSmiles(joint_smi)),
                     ('CombineMols of the components', comb)):
        mo = observe(lib.GetDescriptors, obj)
        ctx.evals()
        if 'exc' in mo:
            ctx.violation('mixture given as %s raises %s' % (lab, mo['exc']),
                          case, {'msg': mo['msg']})
            return False
        g2 = {str(k): float(v) for k, v in dict(mo['ok']).items()}
        if not same(g2, want):
            ctx.violation('descriptors of the mixture (%s) != sum over '
                          'components' % lab, case,
                          {'differences': {k: [g2.get(k, 0.0),
                                               want.get(k, 0.0)]
                                           for k in list(set(g2) | set(want))
                                           if abs(g2.get(k, 0.0) -
                                                  want.get(k, 0.0)) > 1e-12
                                           }})
            return False
    ctx.count('mixtures_as_mol_objects')
    return True


def check_tuple(ctx, libname, parts, estimates=False):
    lib = libs.get(libname)
    case = {'lib': libname, 'parts': list(parts)}
    singles = [decomp(lib, libname, p) for p in parts]
    joint_smi = '.'.join(parts)
    jo = observe(lib.GetDescriptors, joint_smi)
    ctx.evals()
    failing = [p for p, s in zip(parts, singles) if s[0] == 'exc']
    if failing:
        kinds = set(s[1] for s in singles if s[0] == 'exc')
        if 'ok' in jo:
            ctx.violation('the joint species decomposes although a component '
                          'does not', case, {'failing_components': failing,
                                             'joint': dict(jo['ok'])})
            return
        if kinds == {'PatternMatchError'} and jo['exc'] != \
                'PatternMatchError':
            ctx.violation('joint species fails with %s, components with '
                          'PatternMatchError' % jo['exc'], case,
                          {'msg': jo['msg']})
            return
        ctx.count('failure_propagation_decided')
        ctx.nontrivial([libname] + list(parts))
        return
    if 'exc' in jo:
        ctx.violation('components decompose but the joint species raises %s'
                      % jo['exc'], case, {'msg': jo['msg']})
        return
    want = collections.Counter()
    for s in singles:
        for k, v in s[1].items():
            want[k] += v
    got = {str(k): float(v) for k, v in dict(jo['ok']).items()}
    if not same(got, want):
        diff = {k: [got.get(k, 0.0), want.get(k, 0.0)]
                for k in set(got) | set(want)
                if abs(got.get(k, 0.0) - want.get(k, 0.0)) > 1e-12}
        ctx.violation('descriptors of the mixture != sum over components',
                      case, {'differences': dict(list(diff.items())[:8])})
        return
    # the same mixture handed over as ONE RDKit object (thorough tier: for
    # every third tuple, to keep the exhaustive pair grid affordable)
    if not (ctx.tier == 'thorough' and sum(map(ord, joint_smi)) % 3):
        if not object_forms(ctx, lib, libname, parts, joint_smi, want, case):
            return
    ctx.nontrivial([libname] + list(parts))
    ctx.klass('%d components' % len(parts))
    if not estimates:
        return
    # additivity of estimated properties
    ests = []
    for smi in list(parts) + [joint_smi]:
        d = observe(lib.GetDescriptors, smi)
        e = observe(lib.Estimate, d['ok'], 'thermochem') if 'ok' in d else d
        if 'exc' in e:
            ctx.skip('no estimate for a component (%s)' % e['exc'])
            return
        ests.append(e['ok'])
    rng = ests[-1].get_range()
    T = 500.0 if rng is None else min(max(500.0, rng[0]), rng[1])
    for meth, kw in (('get_CpoR', {}), ('get_HoRT', {}), ('get_SoR', {}),
                     ('get_GoRT', {}), ('get_SoR', {'S_elements': True}),
                     ('get_GoRT', {'S_elements': True})):
        vals = [observe(getattr(e, meth), T, **kw) for e in ests]
        ctx.evals(len(vals))
        if any('exc' in v for v in vals):
            if all('exc' in v for v in vals[-1:]) and any(
                    'exc' in v for v in vals[:-1]):
                continue        # incomplete data on both sides
            ctx.violation('%s%s raises for the mixture or a component only'
                          % (meth, ' (S_elements)' if kw else ''), case,
                          {'outcomes': [v.get('exc', 'value') for v in vals]})
            return
        tot = sum(float(v['ok']) for v in vals[:-1])
        sc = sum(abs(float(v['ok'])) for v in vals[:-1]) + 1.0
        if not close(vals[-1]['ok'], tot, rel=1e-10, abs_=0.0, scale=sc):
            ctx.violation('%s%s of the mixture != sum over components' % (
                meth, ' (S_elements)' if kw else ''), case,
                {'T': T, 'mixture': float(vals[-1]['ok']), 'sum': tot})
            return
    ctx.count('estimate_additivity_checked')
    if ctx.rng.random() < 0.05:
        ctx.sample({'lib': libname, 'A.B': joint_smi, 'descriptors': got})


def pool_for(ctx, name):
    q = ctx.tier == 'quick'
    metal = libs.METAL.get(name, 'Pt')
    pl = molecules.pool(ctx.seed, n_random=30 if q else 200,
                        n_ads=30 if q else 200, metal=metal,
                        nitrogen=name in ('BensonGA', 'PPY'), max_heavy=9)
    pl = [s for s in pl if molecules.heavy_atoms(s) <= 12]
    r = ctx.sub_rng('c04pool', name)
    n = 45 if q else 300
    picked = r.sample(pl, min(n, len(pl)))
    for s in ('[H][H]', 'C', 'O', '[CH3]', 'c1ccccc1', 'C1CC1', 'CS',
              'C%s' % ('[%s]' % metal), r'C/C=C\C', 'C=C', 'CC(C)(C)C'):
        c = molecules.canon(s)
        if c and c not in picked:
            picked.append(c)
    return picked


def run_shard(ctx):
    i = 0
    for name in libs.LIBS:
        pl = pool_for(ctx, name)
        for a in pl:
            for b in pl:
                if ctx.mine(i):
                    check_tuple(ctx, name, (a, b),
                                estimates=(i % 23 == 0))
                i += 1
        # scale: a ring / a branched / an unsaturated component placed AFTER
        # more than 256 heavy atoms (and 600+ atoms once H are added)
        if name in ('BensonGA', 'PPY', 'GRWSurface2018'):
            big = ['C' * 130, 'C' * 135]
            for tail in (('C1CC1',), ('CC(C)C(C)(C)C', 'C1CCOC1'),
                         ('C=CC=C',)):
                for tup in (tuple(big) + tail, tail + tuple(big),
                            ('C' * 262,) + tail):
                    if ctx.mine(i):
                        ctx.count('tuples_beyond_256_heavy_atoms')
                        check_tuple(ctx, name, tup)
                    i += 1
            # components each well below a size at which something might
            # saturate (match caps, index widths), their mixture above it:
            # every pair / triple of chains of 10-60 carbons
            sizes = (10, 20, 25, 30, 40, 60)
            mids = [(('C' * a_), ('C' * b_ + 'O')) for a_ in sizes
                    for b_ in sizes if a_ <= b_]
            mids += [('C' * 20, 'C' * 20, 'CC(C)' + 'C' * 17),
                     ('C' * 15 + 'O', 'C' * 15, 'C' * 15, 'C' * 15)]
            for tup in mids:
                if ctx.mine(i) and (ctx.tier == 'thorough' or
                                    (i // 16 + ctx.seed) % 2 == 0):
                    ctx.count('tuples_of_mid_sized_chains')
                    check_tuple(ctx, name, tup)
                i += 1
        if name in ('BensonGA', 'PPY'):
            # a component with an unusual but valid ring (ring alkyne, ring
            # allene, small / medium rings, ring radical) written BEFORE and
            # AFTER an ordinary aromatic / aliphatic ring component: whatever
            # walks the rings of the joint molecule must not let one
            # component's ring decide about the other's
            odd = ['C1=CC=CC#C1', 'C1CCCC#C1', 'C1CCC=C=C1', 'C1=CC1',
                   'C1CCCCCCC1', '[CH]1CCCCC1', 'C1=CCC=CC1', 'O1C=CC=C1']
            plain = ['c1ccccc1', 'Oc1ccccc1', 'Cc1ccccc1', 'C1CCCCC1',
                     'c1ccncc1' if name == 'PPY' else 'c1ccc(C)cc1C']
            for a_ in odd:
                for b_ in plain:
                    for tup in ((a_, b_), (b_, a_), (a_, 'CC', b_)):
                        if ctx.mine(i) and (ctx.tier == 'thorough' or
                                            (i // 16 + ctx.seed) % 2 == 0):
                            ctx.count('tuples_with_an_unusual_ring_component')
                            check_tuple(ctx, name, tup)
                        i += 1
        r = ctx.sub_rng('c04tri', name)
        for _ in range(60 if ctx.tier == 'quick' else 2000):
            t = tuple(r.choice(pl) for _ in range(3))
            if ctx.mine(i):
                check_tuple(ctx, name, t, estimates=(i % 7 == 0))
            i += 1


def replay(ctx, case):
    check_tuple(ctx, case['lib'], tuple(case['parts']), estimates=True)


def ring_system_shared(smi):
    """Two rings sharing >= 2 atoms (fused / bridged): where the open C03
    finding (Kekule-form / SSSR-order dependent ring perception) lives."""
    from rdkit import Chem
    m = Chem.MolFromSmiles(smi)
    if m is None:
        return False
    rings = [set(r) for r in m.GetRingInfo().AtomRings()]
    return any(len(rings[a] & rings[b]) >= 2 for a in range(len(rings))
               for b in range(a + 1, len(rings)))


def classify(v):
    """Known finding (the C03 finding `kekule-form-dependent-perception`
    seen through a mixture): a component with a fused / bridged ring system
    is perceived differently -- other Kekule structure, other SSSR ring
    order, hence other rings made aromatic -- when further components are
    present in the same input.  An instance must (a) contain such a
    component, (b) for a mismatch: differ in GROUP names only, every other
    component must carry exactly the groups it carries alone (per-atom
    names of the annotated molecule), and the joint mapping must be the
    declared decomposition of the joint's own normalised molecule; (c) for a
    failure of the joint: the unassigned atom must belong to such a
    component."""
    try:
        import collections as _c
        import re
        from rdkit import Chem
        from vmon.props import c02
        from vmon.refs import ring as R
        sig = v.get('sig', '')
        case = v.get('case', {})
        parts = list(case.get('parts') or [])
        libname = case.get('lib')
        if not parts or not isinstance(libname, str):
            return None
        shared = [ring_system_shared(p) for p in parts]
        if not any(shared):
            return None
        real, ref = c02.get_scheme(libname)

        def groups_of(hm, idxs):
            return _c.Counter(hm.GetAtomWithIdx(i).GetProp('Group_name')
                              for i in idxs
                              if hm.GetAtomWithIdx(i).HasProp('Group_name'))
        if sig == 'descriptors of the mixture != sum over components':
            diffs = v.get('detail', {}).get('differences', {})
            if not diffs or any('(' not in k for k in diffs):
                return None
            real._verif_last_mol = None
            got = dict(real.GetDescriptors('.'.join(parts)))
            hm = real._verif_last_mol
            if hm is None:
                return None
            want, _, _ = ref.decompose(hm, R.Facts(hm))
            if any(abs(float(got.get(k, 0)) - float(want.get(k, 0))) > 1e-12
                   for k in set(got) | set(want)):
                return None
            frags = sorted(Chem.GetMolFrags(hm), key=min)
            if len(frags) != len(parts):
                return None
            for p, fr, sh in zip(parts, frags, shared):
                if sh:
                    continue
                real._verif_last_mol = None
                real.GetDescriptors(p)
                alone = real._verif_last_mol
                if alone is None or groups_of(alone, range(
                        alone.GetNumAtoms())) != groups_of(hm, fr):
                    return None
            return 'fused-ring-perception-depends-on-context'
        if sig.startswith('components decompose but the joint species raises '
                          'PatternMatchError'):
            m = re.search(r'atom number (\d+)', v.get('detail', {}).get(
                'msg', ''))
            if not m:
                return None
            n = int(m.group(1))
            off = 0
            for p, sh in zip(parts, shared):
                k = Chem.MolFromSmiles(p).GetNumAtoms()
                if off <= n < off + k:
                    return 'fused-ring-perception-depends-on-context' \
                        if sh else None
                off += k
            return None
    except Exception:
        return None
    return None


LEVEL_TEXT = ('Held on every executed pair/triple: all ordered pairs (incl. '
              'self-pairs) of a per-scheme pool plus random triples for the '
              'nine shipped schemes; descriptor-wise additivity, failure '
              'propagation and (sampled) additivity of every estimated '
              'property incl. the elemental reference. Exhaustive over the '
              'pool\'s pairs, exploration over molecules.')
