"""vmon.shard -- one shard of a property workload (own process).

    python -m vmon.shard C05 quick 0 3 16 /tmp/.../shard003.json
    python -m vmon.shard C05 replay /verif/replays/C05/<key>.json
"""
import importlib
import io
import json
import os
import sys
import time

ROOT = os.path.dirname(os.path.dirname(os.path.abspath(__file__)))


def setup_paths():
    if ROOT not in sys.path:
        sys.path.insert(0, ROOT)
    deps = os.path.join(ROOT, '.deps')
    if os.path.isdir(deps) and deps not in sys.path:
        # at the END: the asttokens/typing_extensions copies that come with
        # icontract must never shadow the versions /venv already has.
        sys.path.append(deps)


def check_target():
    import pgradd
    f = os.path.realpath(pgradd.__file__)
    want = os.path.realpath(os.environ.get('VERIF_REPO', '/repo'))
    if not f.startswith(want + os.sep):
        raise SystemExit('pgradd imported from %s, not under %s' % (f, want))
    return f


def quiet_rdkit():
    try:
        from rdkit import RDLogger
        RDLogger.DisableLog('rdApp.*')
    except Exception:
        pass


class CountingSink(io.TextIOBase):
    def __init__(self):
        self.n = 0

    def write(self, s):
        self.n += len(s)
        return len(s)


def configure_process():
    """Process-wide configuration of a variant run (vmon.run VARIANTS)."""
    if os.environ.get('VMON_LOGGING') == 'debug':
        # every logger enabled down to DEBUG (what logging.basicConfig(level=
        # logging.DEBUG) in an application does); records go nowhere
        import logging
        logging.basicConfig(level=logging.DEBUG,
                            handlers=[logging.NullHandler()], force=True)
        logging.getLogger().setLevel(logging.DEBUG)
    if os.environ.get('VMON_DECIMAL_PREC'):
        import decimal
        n = int(os.environ['VMON_DECIMAL_PREC'])
        decimal.getcontext().prec = n
        decimal.DefaultContext.prec = n      # what new threads start from
    if os.environ.get('VMON_NUMPY_PRINT'):
        import numpy
        numpy.set_printoptions(precision=int(os.environ['VMON_NUMPY_PRINT']),
                               suppress=True, threshold=5)


def closed_stdout():
    f = open(os.devnull, 'w')
    f.close()
    return f


def import_probe():
    """Every module of the package under test imports in this process
    configuration (-O / -OO, warnings filter, logging, hash seed ...).
    Returns None, or what failed -- if the failure is raised from inside the
    package.  (A failure raised elsewhere is the environment's: it
    propagates, the shard dies and the run is INCONCLUSIVE.)"""
    import importlib.util
    import traceback
    spec = importlib.util.find_spec('pgradd')
    root = os.path.realpath(os.path.dirname(spec.origin))
    names = ['pgradd']
    for dp, dns, fns in os.walk(root):
        dns[:] = sorted(d for d in dns if d not in ('tests', 'test', 'data',
                                                    '__pycache__'))
        for fn in sorted(fns):
            if fn.endswith('.py') and not fn.startswith('test'):
                rel = os.path.relpath(os.path.join(dp, fn), root)[:-3]
                parts = rel.split(os.sep)
                if parts[-1] == '__init__':
                    parts = parts[:-1]
                if parts:
                    names.append('pgradd.' + '.'.join(parts))
    for n in names:
        try:
            importlib.import_module(n)
        except BaseException as exc:  # noqa: BLE001
            tb = traceback.extract_tb(exc.__traceback__)
            inner = os.path.realpath(tb[-1].filename) if tb else ''
            if not inner.startswith(root + os.sep):
                raise
            return {'module': n, 'exc': type(exc).__name__,
                    'msg': str(exc)[:300],
                    'where': '%s:%s' % (os.path.relpath(inner, root),
                                        tb[-1].lineno),
                    'modules_tried': len(names)}
    return None


def configuration_text():
    bits = []
    if sys.flags.optimize:
        bits.append('python -%s' % ('O' * sys.flags.optimize))
    if os.environ.get('VMON_WARNINGS') == 'error':
        bits.append('warnings as errors')
    if os.environ.get('VMON_LOGGING') == 'debug':
        bits.append('logging at DEBUG')
    if os.environ.get('VMON_STDOUT') == 'closed':
        bits.append('decimal precision 3, stdout closed')
    return ', '.join(bits) or 'default configuration'


def main():
    setup_paths()
    configure_process()
    prop = sys.argv[1].upper()
    from vmon.core.ctx import Ctx
    broken = import_probe()
    if broken is not None:
        sig = 'a module of the package cannot be imported (%s; %s)' % (
            broken['exc'], configuration_text())
        if sys.argv[2] == 'replay':
            print('REPLAY sig=%s detail=%s' % (sig, json.dumps(broken)))
            print('VIOLATION property=%s replay=%s' % (prop, sys.argv[3]))
            sys.exit(1)
        ctx = Ctx(prop, sys.argv[2], int(sys.argv[3]), int(sys.argv[4]),
                  int(sys.argv[5]))
        ctx.violation(sig, {'what': 'import', 'module': broken['module']},
                      broken)
        res = ctx.dump()
        res['anchors'] = {}
        res['monitor_evaluations'] = {}
        with open(sys.argv[6], 'w') as f:
            json.dump(res, f, default=repr)
        return
    mod = importlib.import_module('vmon.props.%s' % prop.lower())
    quiet_rdkit()
    pfile = check_target()
    if os.environ.get('VMON_STDOUT') == 'closed' and hasattr(
            sys, 'set_int_max_str_digits'):
        # ... and, now that the package is imported, the interpreter's limit
        # on int <-> str conversion is lowered to its minimum (an application
        # hardening itself at start-up, after its imports)
        sys.set_int_max_str_digits(640)

    if sys.argv[2] == 'replay':
        with open(sys.argv[3]) as f:
            rec = json.load(f)
        ctx = Ctx(prop, rec.get('tier', 'quick'), rec.get('seed', 0), 0, 1)
        if rec.get('toured') and not getattr(mod, 'NO_TOUR', False):
            # the witness comes from a process that had a past
            from vmon.core.foreign import tour
            tour()
        if rec['case'].get('what') == 'import':
            print('replay: every module of the package imports in this '
                  'configuration (%s)' % configuration_text())
            sys.exit(0)
        real_out = sys.stdout
        if os.environ.get('VMON_STDOUT') == 'closed':
            sys.stdout = closed_stdout()
        try:
            mod.replay(ctx, rec['case'])
        finally:
            sys.stdout = real_out
        known = {}
        try:
            with open(os.path.join(ROOT, 'known_findings.json')) as f:
                for k in json.load(f).get('findings', []):
                    if k.get('property') == prop and k.get('status') == \
                            'open':
                        known[k['key']] = k
        except Exception:
            pass
        classify = getattr(mod, 'classify', None)
        unknown = 0
        for v in ctx.violations:
            print('REPLAY sig=%s detail=%s' % (
                v['sig'], json.dumps(v['detail'], default=repr)[:2000]))
            key = classify(v) if classify else None
            if key in known:
                print('KNOWN-FINDING: property=%s %s' % (prop,
                                                         known[key]['what']))
            else:
                unknown += 1
        if unknown:
            print('VIOLATION property=%s replay=%s' % (prop, sys.argv[3]))
            sys.exit(1)
        if ctx.violations:
            sys.exit(0)
        print('replay: property held on this case')
        sys.exit(0)

    tier, seed, shard, nshards, out = (sys.argv[2], int(sys.argv[3]),
                                       int(sys.argv[4]), int(sys.argv[5]),
                                       sys.argv[6])
    ctx = Ctx(prop, tier, seed, shard, nshards)
    from vmon.monitors.anchors import AnchorMonitor
    am = AnchorMonitor(getattr(mod, 'ANCHORS', []) +
                       getattr(mod, 'ANCHORS_OPTIONAL', []))
    am.start()
    lc = None
    if os.environ.get('VERIF_LINECOV'):
        from vmon.monitors.linecov import LineCov
        lc = LineCov(os.path.dirname(pfile), os.path.join(
            os.environ['VERIF_LINECOV'], '%s_%s_%03d.json' % (prop, tier,
                                                              shard)))
        lc.start()
    t0 = time.time()
    # the units package prints debugging text from FundamentalUnits.__eq__ /
    # __str__: noise, not a property; captured and only counted.
    real_stdout = sys.stdout
    cap = CountingSink()
    sys.stdout = closed_stdout() if os.environ.get('VMON_STDOUT') == \
        'closed' else cap
    try:
        if shard % 2 == 1 and not getattr(mod, 'NO_TOUR', False):
            # the process has a past: a tour through every other part of
            # the package before the workload (vmon.core.foreign)
            from vmon.core.foreign import tour
            ctx.count('shards_started_after_a_tour_of_the_package')
            ctx.count('tour_steps_that_raised', tour())
        mod.run_shard(ctx)
    finally:
        sys.stdout = real_stdout
        am.stop()
        if lc:
            lc.stop()
    res = ctx.dump()
    res['anchors'] = am.report()
    res['wall'] = time.time() - t0
    res['pgradd_file'] = pfile
    res['stdout_chars'] = cap.n
    res['notes'].setdefault('pgradd_file', pfile)
    mons = getattr(mod, 'monitor_evaluations', None)
    res['monitor_evaluations'] = mons() if mons else {}
    from vmon.core import obs
    if obs.WARNINGS_AS_ERRORS:
        for k, v in obs.STATS.items():
            res['counters'][k] = res['counters'].get(k, 0) + v
    if os.environ.get('VMON_LOGGING') == 'debug':
        res['counters']['evaluations_with_debug_logging_enabled'] = \
            res['counters'].get('evaluations', 0)
    if os.environ.get('VMON_STDOUT') == 'closed':
        res['counters']['evaluations_with_stdout_closed_and_decimal_'
                        'precision_3'] = res['counters'].get('evaluations', 0)
    if not __debug__:
        res['counters']['evaluations_in_an_optimised_interpreter'] = \
            res['counters'].get('evaluations', 0)
    tmp = out + '.tmp'
    with open(tmp, 'w') as f:
        json.dump(res, f, default=repr)
    os.replace(tmp, out)


if __name__ == '__main__':
    main()
