#!/bin/sh
# MANIFEST.setup_cmd: offline, from files on disk only.
# Installs icontract + deal (runtime contracts) from the offline wheelhouse
# into /verif/.deps (git-ignored) for /venv's interpreter and byte-compiles vmon.
HERE="$(cd "$(dirname "$0")" && pwd)"
cd "$HERE" || exit 1
PY="${VERIF_PYTHON:-/venv/bin/python}"
if [ ! -d .deps/icontract ]; then
  PIP_NO_INDEX=1 "$PY" -m pip install --quiet --no-index \
     --find-links /opt/veriftools/wheels --target .deps icontract deal \
     || echo "setup: icontract/deal not installed (contracts will be skipped)"
fi
"$PY" -m compileall -q vmon >/dev/null 2>&1
"$PY" -c "import sys; sys.path.insert(0,'.'); import vmon.run, pgradd; print('setup ok', pgradd.__file__)"
